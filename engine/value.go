package main

import (
	"fmt"
	"go/types"
	"math/big"
	"strings"

	"golang.org/x/tools/go/ssa"
)

// Value is one of:
//   *Term                 scalar (Bool, Int, BV8, Seq, FP)
//   *StructV, *ArrayV     aggregates with value semantics (copied on load/store)
//   Ptr                   (object, path) or nil
//   SliceV                (backing array object, off, len, cap); all concrete
//   BytesV                immutable []byte given as a Seq term (length may be symbolic)
//   *MapV                 reference; nil map = (*MapV)(nil)
//   Iface                 (dynamic type, value); nil interface = Iface{}
//   *Closure              function value; nil func = (*Closure)(nil)
//   Tuple                 multiple results
//   TimeV                 time.Time as unix nanoseconds (SMT Int)
//   *Opaque               abstract library object
//   *ChanV                channel
//   AnyJSON               decoded-JSON `any` with symbolic dynamic type tag
type Value interface{}

type StructV struct {
	Fields []Value
}
type ArrayV struct {
	Elems []Value
}
type Object struct {
	ID    int
	V     Value
	Label string // "", "global", "instance", "caller"
	Typ   types.Type
	Name  string
}
type Ptr struct {
	Obj  *Object
	Path []int
}
type SliceV struct {
	Arr           *Object // holds *ArrayV
	Off, Len, Cap int
}
type BytesV struct{ T *Term }
type MapEntry struct{ K, V Value }
type MapV struct {
	ID      int
	Entries []MapEntry
	Label   string
	// Default, when set, supplies the value of keys that are not present:
	// used for "arbitrary request form" style maps.
}
type Iface struct {
	T types.Type
	V Value
}
type Closure struct {
	Fn    *ssa.Function
	Binds []Value
	// host-implemented function value
	Host func(ex *Exec, args []Value) Value
	Name string
}
type Tuple []Value
type TimeV struct{ NS *Term }
type Opaque struct {
	ID    int
	Kind  string
	Attrs map[string]Value
}
type ChanV struct {
	ID     int
	Closed bool
	Buf    []Value
	Cap    int
	Ctx    *Opaque // a context's Done channel: ready as soon as that context (or an ancestor) is cancelled
}

// AnyJSON: a value decoded by encoding/json into `any`. Tag is a symbolic Int:
// 0 nil, 1 bool, 2 float64, 3 string, 4 []any, 5 map[string]any.
type AnyJSON struct {
	Tag   *Term
	B     *Term   // as bool
	F     *Term   // as float (SFP)
	S     *Term   // as string
	Arr   []Value // as array (elements AnyJSON), concrete length chosen lazily
	Name  string
	Depth int
}

var zeroTimeNS = func() *big.Int {
	z := big.NewInt(-62135596800)
	return z.Mul(z, big.NewInt(1000000000))
}()

func isNilPtr(v Value) bool { p, ok := v.(Ptr); return ok && p.Obj == nil }

func isTimeType(t types.Type) bool {
	n, ok := t.(*types.Named)
	return ok && n.Obj().Pkg() != nil && n.Obj().Pkg().Path() == "time" && n.Obj().Name() == "Time"
}

func namedIs(t types.Type, pkg, name string) bool {
	n, ok := t.(*types.Named)
	return ok && n.Obj().Pkg() != nil && n.Obj().Pkg().Path() == pkg && n.Obj().Name() == name
}

// zeroValue builds the zero value of a type.
func zeroValue(t types.Type) Value {
	if isTimeType(t) {
		return TimeV{NS: BigLit(zeroTimeNS)}
	}
	switch u := t.Underlying().(type) {
	case *types.Basic:
		switch {
		case u.Info()&types.IsBoolean != 0:
			return tFalse
		case u.Info()&types.IsString != 0:
			return StrLit("")
		case u.Kind() == types.Uint8:
			return ByteLit(0)
		case u.Info()&types.IsInteger != 0:
			return IntLit(0)
		case u.Info()&types.IsFloat != 0:
			return FloatLit(0)
		case u.Kind() == types.UnsafePointer:
			return Ptr{}
		case u.Kind() == types.UntypedNil:
			return Ptr{}
		}
	case *types.Pointer:
		return Ptr{}
	case *types.Slice:
		return SliceV{}
	case *types.Map:
		return (*MapV)(nil)
	case *types.Chan:
		return (*ChanV)(nil)
	case *types.Signature:
		return (*Closure)(nil)
	case *types.Interface:
		return Iface{}
	case *types.Struct:
		s := &StructV{Fields: make([]Value, u.NumFields())}
		for i := range s.Fields {
			s.Fields[i] = zeroValue(u.Field(i).Type())
		}
		return s
	case *types.Array:
		a := &ArrayV{Elems: make([]Value, u.Len())}
		for i := range a.Elems {
			a.Elems[i] = zeroValue(u.Elem())
		}
		return a
	case *types.Tuple:
		tp := make(Tuple, u.Len())
		for i := range tp {
			tp[i] = zeroValue(u.At(i).Type())
		}
		return tp
	}
	panic(engineErr("zeroValue: unsupported type %s", t))
}

// copyVal implements Go value semantics for aggregates.
func copyVal(v Value) Value {
	switch x := v.(type) {
	case *StructV:
		n := &StructV{Fields: make([]Value, len(x.Fields))}
		for i, f := range x.Fields {
			n.Fields[i] = copyVal(f)
		}
		return n
	case *ArrayV:
		n := &ArrayV{Elems: make([]Value, len(x.Elems))}
		for i, f := range x.Elems {
			n.Elems[i] = copyVal(f)
		}
		return n
	case Tuple:
		n := make(Tuple, len(x))
		for i, f := range x {
			n[i] = copyVal(f)
		}
		return n
	}
	return v
}

func (p Ptr) slot() *Value {
	if p.Obj == nil {
		panic("slot of nil pointer")
	}
	cur := &p.Obj.V
	for _, i := range p.Path {
		switch x := (*cur).(type) {
		case *StructV:
			cur = &x.Fields[i]
		case *ArrayV:
			cur = &x.Elems[i]
		default:
			panic(engineErr("pointer path into non-aggregate %T", *cur))
		}
	}
	return cur
}

func (p Ptr) child(i int) Ptr {
	np := make([]int, len(p.Path)+1)
	copy(np, p.Path)
	np[len(p.Path)] = i
	return Ptr{Obj: p.Obj, Path: np}
}

func ptrEq(a, b Ptr) bool {
	if a.Obj != b.Obj || len(a.Path) != len(b.Path) {
		return false
	}
	for i := range a.Path {
		if a.Path[i] != b.Path[i] {
			return false
		}
	}
	return true
}

func (s SliceV) elemPtr(i int) Ptr {
	return Ptr{Obj: s.Arr, Path: []int{s.Off + i}}
}
func (s SliceV) get(i int) Value  { return s.Arr.V.(*ArrayV).Elems[s.Off+i] }
func (s SliceV) set(i int, v Value) { s.Arr.V.(*ArrayV).Elems[s.Off+i] = v }

type engineError struct{ msg string }

func (e engineError) Error() string { return e.msg }
func engineErr(f string, a ...interface{}) engineError {
	return engineError{fmt.Sprintf(f, a...)}
}

// showValue renders a value for diagnostics / evidence samples.
func showValue(v Value) string {
	switch x := v.(type) {
	case nil:
		return "<nil>"
	case *Term:
		s := x.String()
		if x.IsLit() && x.Sort == SSeq {
			return fmt.Sprintf("%q", x.S)
		}
		if len(s) > 120 {
			s = s[:120] + "…"
		}
		return s
	case *StructV:
		ps := make([]string, len(x.Fields))
		for i, f := range x.Fields {
			ps[i] = showValue(f)
		}
		return "{" + strings.Join(ps, ", ") + "}"
	case *ArrayV:
		ps := make([]string, len(x.Elems))
		for i, f := range x.Elems {
			ps[i] = showValue(f)
		}
		return "[" + strings.Join(ps, ", ") + "]"
	case Ptr:
		if x.Obj == nil {
			return "nilptr"
		}
		return fmt.Sprintf("&obj%d%v", x.Obj.ID, x.Path)
	case SliceV:
		if x.Arr == nil {
			return "nilslice"
		}
		ps := make([]string, x.Len)
		for i := 0; i < x.Len; i++ {
			ps[i] = showValue(x.get(i))
		}
		return "[]{" + strings.Join(ps, ", ") + "}"
	case BytesV:
		return "bytes(" + showValue(x.T) + ")"
	case *MapV:
		if x == nil {
			return "nilmap"
		}
		ps := make([]string, len(x.Entries))
		for i, e := range x.Entries {
			ps[i] = showValue(e.K) + ":" + showValue(e.V)
		}
		return "map{" + strings.Join(ps, ", ") + "}"
	case Iface:
		if x.T == nil {
			return "nil"
		}
		return fmt.Sprintf("iface(%s, %s)", x.T, showValue(x.V))
	case *Closure:
		if x == nil {
			return "nilfunc"
		}
		if x.Fn != nil {
			return "func " + x.Fn.String()
		}
		return "hostfunc " + x.Name
	case Tuple:
		ps := make([]string, len(x))
		for i, f := range x {
			ps[i] = showValue(f)
		}
		return "(" + strings.Join(ps, ", ") + ")"
	case TimeV:
		return "time(" + showValue(x.NS) + ")"
	case *Opaque:
		return fmt.Sprintf("opaque(%s#%d)", x.Kind, x.ID)
	case AnyJSON:
		return "anyjson(" + x.Name + ")"
	}
	return fmt.Sprintf("%T", v)
}
