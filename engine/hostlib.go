package main

import (
	"net/http"
	"net/textproto"
	"net/url"
	"strings"
)

func textprotoCanonical(s string) string { return textproto.CanonicalMIMEHeaderKey(s) }
func httpStatusText(c int) string        { return http.StatusText(c) }
func urlQueryUnescape(s string) (string, error) { return url.QueryUnescape(s) }
func urlQueryEscape(s string) string     { return url.QueryEscape(s) }
func endsWithPartialEscape(s string) bool {
	i := strings.LastIndexByte(s, '%')
	return i >= 0 && i >= len(s)-2
}

func reflectTag(tag, key string) string {
	// minimal struct tag lookup
	for tag != "" {
		i := 0
		for i < len(tag) && tag[i] == ' ' {
			i++
		}
		tag = tag[i:]
		if tag == "" {
			break
		}
		i = 0
		for i < len(tag) && tag[i] > ' ' && tag[i] != ':' && tag[i] != '"' {
			i++
		}
		if i == 0 || i+1 >= len(tag) || tag[i] != ':' || tag[i+1] != '"' {
			break
		}
		name := tag[:i]
		tag = tag[i+1:]
		i = 1
		for i < len(tag) && tag[i] != '"' {
			if tag[i] == '\\' {
				i++
			}
			i++
		}
		if i >= len(tag) {
			break
		}
		val := tag[1:i]
		tag = tag[i+1:]
		if name == key {
			return val
		}
	}
	return ""
}

func splitComma(s string) []string { return strings.Split(s, ",") }
