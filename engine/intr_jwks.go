package main

// JWKS documents (C13): verifnd.JWKS builds the body a JWKS endpoint serves from a list of keys, with an
// optional entry of a key type go-jose does not know. Decoding goes through the repository's own
// jsonWebKeySet.UnmarshalJSON (real code); the raw entries are handed to (*jose.JSONWebKey).UnmarshalJSON,
// which yields the key the entry was built from, or an error for the unknown-kty entry.

import (
	"fmt"
	"go/types"

	"golang.org/x/tools/go/ssa"
)

type jwksDoc struct{ elems []Value } // *StructV (a jose.JSONWebKey) or nil (unknown kty)

type jwksBox struct{ d *jwksDoc }
type jwkRawBox struct{ v Value }

func (ex *Exec) jwksOf(data *Term) (*jwksDoc, bool) {
	v, ok := ex.memo["jwksdoc:"+data.String()]
	if !ok {
		return nil, false
	}
	return v.(*jwksBox).d, true
}

func init() {
	// verifnd.JWKS(keys []jose.JSONWebKey, unknownAt int) string
	reg(nd("JWKS"), func(ex *Exec, fn *ssa.Function, a []Value) Value {
		kv := a[0]
		if iv, ok := kv.(Iface); ok {
			kv = iv.V
		}
		keys, ok := kv.(SliceV)
		if !ok {
			panic(engineErr("verifnd.JWKS: keys must be a []jose.JSONWebKey"))
		}
		at := ex.concreteInt(a[1], "JWKS unknownAt")
		d := &jwksDoc{}
		for i := 0; i <= keys.Len; i++ {
			if i == at {
				d.elems = append(d.elems, nil)
			}
			if i < keys.Len {
				d.elems = append(d.elems, copyVal(keys.get(i)))
			}
		}
		k := ex.counters["jwksdoc"]
		ex.counters["jwksdoc"]++
		doc := ex.fresh(fmt.Sprintf("jwks%d", k), SSeq, "env")
		// a JSON object: starts with '{', ends with '}', nothing to trim
		ex.assume(And(SeqPrefixOf(StrLit("{"), doc), SeqSuffixOf(StrLit("}"), doc), Ge(SeqLen(doc), IntLit(2))))
		ex.assume(Eq(trimSpaceTerm(doc), doc))
		ex.memo["jwksdoc:"+doc.String()] = &jwksBox{d}
		return doc
	})
	reg("(*"+josePkg+".JSONWebKey).UnmarshalJSON", func(ex *Exec, fn *ssa.Function, a []Value) Value {
		data := ex.bytesTerm(a[1])
		v, ok := ex.memo["jwkraw:"+data.String()]
		if !ok {
			panic(engineErr("(*jose.JSONWebKey).UnmarshalJSON: only entries of a verifnd.JWKS document are modelled"))
		}
		src := v.(*jwkRawBox).v
		if src == nil {
			return errorIface(ex, "go-jose: unknown json web key type")
		}
		p := a[0].(Ptr)
		if p.Obj == nil {
			ex.goPanic("nil *jose.JSONWebKey")
		}
		*p.slot() = copyVal(src)
		return Iface{}
	})
}

// decodeJWKS: json.Unmarshal of a verifnd.JWKS document into a struct with a field Keys []json.RawMessage.
func (ex *Exec) decodeJWKS(d *jwksDoc, dst Ptr, t types.Type) bool {
	st := structOf(t)
	if st == nil {
		return false
	}
	for i := 0; i < st.NumFields(); i++ {
		if st.Field(i).Name() != "Keys" {
			continue
		}
		sl, ok := st.Field(i).Type().Underlying().(*types.Slice)
		if !ok || !namedIs(sl.Elem(), "encoding/json", "RawMessage") {
			return false
		}
		arr := &ArrayV{Elems: make([]Value, len(d.elems))}
		for k, e := range d.elems {
			n := ex.counters["jwkraw"]
			ex.counters["jwkraw"]++
			raw := ex.fresh(fmt.Sprintf("jwkraw%d", n), SSeq, "env")
			ex.memo["jwkraw:"+raw.String()] = &jwkRawBox{e}
			arr.Elems[k] = BytesV{T: raw}
		}
		sv := (*dst.slot()).(*StructV)
		sv.Fields[i] = SliceV{Arr: ex.newObj(arr, nil), Len: len(d.elems), Cap: len(d.elems)}
		return true
	}
	return false
}
