package main

// net/url at the contract level (everything except C11, which executes the real bodies):
// Parse / String / Query / Hostname as uninterpreted functions of their inputs with the
// round-trip contract Parse(u.String()) = u, exact host evaluation on concrete inputs.
// net.ParseIP(..).IsLoopback, doublestar.Match and path.Match likewise.

import (
	"go/types"
	"net"
	"net/url"
	"path"
	"sort"
	"strings"

	"golang.org/x/tools/go/ssa"
)

var urlStrFields = []string{"Scheme", "Opaque", "Host", "Path", "RawQuery", "Fragment"}

func (ex *Exec) urlType() types.Type { return ex.eng.LookupType("net/url", "URL") }

func (ex *Exec) urlFromHost(u *url.URL) Value {
	t := ex.urlType()
	sv := zeroValue(t).(*StructV)
	set := func(name string, v Value) { sv.Fields[fieldIndex(t, name)] = v }
	set("Scheme", StrLit(u.Scheme))
	set("Opaque", StrLit(u.Opaque))
	set("Host", StrLit(u.Host))
	set("Path", StrLit(u.Path))
	set("RawPath", StrLit(u.RawPath))
	set("RawQuery", StrLit(u.RawQuery))
	set("Fragment", StrLit(u.Fragment))
	set("RawFragment", StrLit(u.RawFragment))
	set("ForceQuery", BoolLit(u.ForceQuery))
	set("OmitHost", BoolLit(u.OmitHost))
	if u.User != nil {
		ui := ex.newOpaque("userinfo")
		ui.Attrs["s"] = StrLit(u.User.String())
		sv.Fields[fieldIndex(t, "User")] = Ptr{Obj: ex.newObj(ui, nil)}
	}
	return Ptr{Obj: ex.newObj(sv, t)}
}

// urlToHost: all string fields concrete -> host url.URL
func (ex *Exec) urlToHost(sv *StructV) (*url.URL, bool) {
	t := ex.urlType()
	get := func(name string) (string, bool) {
		f, ok := sv.Fields[fieldIndex(t, name)].(*Term)
		if !ok || !f.IsLit() {
			return "", false
		}
		return f.S, true
	}
	u := &url.URL{}
	var ok bool
	for _, p := range []struct {
		n string
		d *string
	}{{"Scheme", &u.Scheme}, {"Opaque", &u.Opaque}, {"Host", &u.Host}, {"Path", &u.Path}, {"RawPath", &u.RawPath},
		{"RawQuery", &u.RawQuery}, {"Fragment", &u.Fragment}, {"RawFragment", &u.RawFragment}} {
		if *p.d, ok = get(p.n); !ok {
			return nil, false
		}
	}
	if b, ok := sv.Fields[fieldIndex(t, "ForceQuery")].(*Term); ok && b.IsLit() {
		u.ForceQuery = b.B
	}
	if b, ok := sv.Fields[fieldIndex(t, "OmitHost")].(*Term); ok && b.IsLit() {
		u.OmitHost = b.B
	}
	if up, ok := sv.Fields[fieldIndex(t, "User")].(Ptr); ok && up.Obj != nil {
		o, _ := (*up.slot()).(*Opaque)
		if o == nil {
			return nil, false
		}
		s := o.Attrs["s"].(*Term).S
		if i := strings.IndexByte(s, ':'); i >= 0 {
			un, _ := url.PathUnescape(s[:i])
			pw, _ := url.PathUnescape(s[i+1:])
			u.User = url.UserPassword(un, pw)
		} else {
			un, _ := url.PathUnescape(s)
			u.User = url.User(un)
		}
	}
	return u, true
}

func (ex *Exec) urlStruct(v Value) *StructV {
	p, ok := v.(Ptr)
	if !ok || p.Obj == nil {
		ex.goPanic("nil pointer dereference (*url.URL)")
	}
	return (*p.slot()).(*StructV)
}

func (ex *Exec) valuesFromHost(q url.Values) *MapV {
	ex.nextID++
	m := &MapV{ID: ex.nextID}
	keys := make([]string, 0, len(q))
	for k := range q {
		keys = append(keys, k)
	}
	sort.Strings(keys)
	for _, k := range keys {
		var ts []*Term
		for _, v := range q[k] {
			ts = append(ts, StrLit(v))
		}
		m.Entries = append(m.Entries, MapEntry{K: StrLit(k), V: ex.strSlice(ts)})
	}
	return m
}

func hasGlobMeta(s string) bool { return strings.ContainsAny(s, "*?[{\\") }

func init() {
	reg("net/url.Parse", func(ex *Exec, fn *ssa.Function, a []Value) Value {
		if ex.realBody("url.Parse") {
			return ex.callBody(fn, a)
		}
		s := a[0].(*Term)
		if s.IsLit() {
			u, err := url.Parse(s.S)
			if err != nil {
				return Tuple{Ptr{}, errorIface(ex, "url.Parse")}
			}
			return Tuple{ex.urlFromHost(u), Iface{}}
		}
		t := ex.urlType()
		sv := zeroValue(t).(*StructV)
		if s.Op == "uf" && s.Name == "uf_"+mangle("url.str") {
			// round-trip contract: Parse(u.String()) gives back u's components
			for i, f := range urlStrFields {
				sv.Fields[fieldIndex(t, f)] = s.Args[i]
				if f == "Fragment" {
					sv.Fields[fieldIndex(t, "RawFragment")] = s.Args[i] // the fragment as it stands in the string
				}
			}
			return Tuple{Ptr{Obj: ex.newObj(sv, t)}, Iface{}}
		}
		ex.ufUse++
		if !ex.Branch(UF("url.ok", SBool, s)) {
			return Tuple{Ptr{}, errorIface(ex, "url.Parse")}
		}
		for _, f := range urlStrFields {
			sv.Fields[fieldIndex(t, f)] = UF("url."+f, SSeq, s)
		}
		ex.run.note("url.Parse of a symbolic string: components are uninterpreted functions of the input (userinfo, RawPath, RawFragment not modelled)")
		return Tuple{Ptr{Obj: ex.newObj(sv, t)}, Iface{}}
	})
	reg("(*net/url.URL).String", func(ex *Exec, fn *ssa.Function, a []Value) Value {
		if ex.realBody("url.String") {
			return ex.callBody(fn, a)
		}
		sv := ex.urlStruct(a[0])
		if u, ok := ex.urlToHost(sv); ok {
			return StrLit(u.String())
		}
		t := ex.urlType()
		var args []*Term
		for _, f := range urlStrFields {
			v := sv.Fields[fieldIndex(t, f)].(*Term)
			if f == "Fragment" {
				// EscapedFragment: a RawFragment that was set next to Fragment is what String emits
				if rf := sv.Fields[fieldIndex(t, "RawFragment")].(*Term); !rf.IsLit() || rf.S != "" {
					v = rf
				}
			}
			args = append(args, v)
		}
		return UF("url.str", SSeq, args...)
	})
	reg("(*net/url.URL).EscapedFragment", func(ex *Exec, fn *ssa.Function, a []Value) Value {
		if ex.realBody("url.String") {
			return ex.callBody(fn, a)
		}
		sv := ex.urlStruct(a[0])
		t := ex.urlType()
		if rf := sv.Fields[fieldIndex(t, "RawFragment")].(*Term); !rf.IsLit() || rf.S != "" {
			return rf
		}
		fr := sv.Fields[fieldIndex(t, "Fragment")].(*Term)
		if fr.IsLit() {
			return StrLit((&url.URL{Fragment: fr.S}).EscapedFragment())
		}
		return fr
	})
	reg("(*net/url.URL).Hostname", func(ex *Exec, fn *ssa.Function, a []Value) Value {
		sv := ex.urlStruct(a[0])
		h := sv.Fields[fieldIndex(ex.urlType(), "Host")].(*Term)
		if h.IsLit() {
			return StrLit((&url.URL{Host: h.S}).Hostname())
		}
		return UF("url.hostname", SSeq, h)
	})
	reg("(*net/url.URL).Port", func(ex *Exec, fn *ssa.Function, a []Value) Value {
		sv := ex.urlStruct(a[0])
		h := sv.Fields[fieldIndex(ex.urlType(), "Host")].(*Term)
		if h.IsLit() {
			return StrLit((&url.URL{Host: h.S}).Port())
		}
		return UF("url.port", SSeq, h)
	})
	reg("(*net/url.URL).IsAbs", func(ex *Exec, fn *ssa.Function, a []Value) Value {
		sv := ex.urlStruct(a[0])
		return Not(Eq(sv.Fields[fieldIndex(ex.urlType(), "Scheme")].(*Term), StrLit("")))
	})
	reg("(*net/url.URL).Query", func(ex *Exec, fn *ssa.Function, a []Value) Value {
		if rqv, ok := ex.urlStruct(a[0]).Fields[fieldIndex(ex.urlType(), "RawQuery")].(*Term); ok && rqv.IsLit() {
			q, _ := url.ParseQuery(rqv.S)
			return ex.valuesFromHost(q)
		}
		if ex.realBody("url.Query") {
			return ex.callBody(fn, a)
		}
		sv := ex.urlStruct(a[0])
		rq := sv.Fields[fieldIndex(ex.urlType(), "RawQuery")].(*Term)
		if rq.IsLit() {
			q, _ := url.ParseQuery(rq.S)
			return ex.valuesFromHost(q)
		}
		if rq.Op == "uf" && rq.Name == "uf_"+mangle("values.enc") {
			return intrinsics["net/url.ParseQuery"](ex, nil, []Value{rq}).(Tuple)[0]
		}
		ex.nextID++
		m := &MapV{ID: ex.nextID}
		if ex.Branch(Eq(rq, StrLit(""))) {
			return m
		}
		ex.run.note("Query() of a symbolic non-empty RawQuery: abstracted as one opaque pair")
		m.Entries = append(m.Entries, MapEntry{K: UF("url.qkey", SSeq, rq), V: ex.strSlice([]*Term{UF("url.qval", SSeq, rq)})})
		return m
	})
	reg("(net/url.Values).Encode", func(ex *Exec, fn *ssa.Function, a []Value) Value {
		if ex.realBody("url.Encode") {
			return ex.callBody(fn, a)
		}
		m, _ := a[0].(*MapV)
		if m == nil || len(m.Entries) == 0 {
			return StrLit("")
		}
		q := url.Values{}
		lit := true
		var args []*Term
		for _, e := range m.Entries {
			k := e.K.(*Term)
			vs := e.V.(SliceV)
			if !k.IsLit() {
				lit = false
			}
			for i := 0; i < vs.Len; i++ {
				v := vs.get(i).(*Term)
				if !v.IsLit() {
					lit = false
				}
				args = append(args, k, v)
				if lit {
					q.Add(k.S, v.S)
				}
			}
		}
		if lit {
			return StrLit(q.Encode())
		}
		ex.ghost["values.enc.last"] = Tuple{m}
		return UF("values.enc", SSeq, args...)
	})
	reg("net/url.ParseQuery", func(ex *Exec, fn *ssa.Function, a []Value) Value {
		if ls, ok := termLitString(a[0].(*Term)); ok {
			a = []Value{StrLit(ls)}
		} else if ex.realBody("url.ParseQuery") {
			return ex.callBody(fn, a)
		}
		s := a[0].(*Term)
		if s.IsLit() {
			q, err := url.ParseQuery(s.S)
			if err != nil {
				return Tuple{ex.valuesFromHost(q), errorIface(ex, "url.ParseQuery")}
			}
			return Tuple{ex.valuesFromHost(q), Iface{}}
		}
		if s.Op == "uf" && s.Name == "uf_"+mangle("values.enc") {
			// round trip: ParseQuery(Encode(v)) = v
			ex.nextID++
			m := &MapV{ID: ex.nextID}
			for i := 0; i+1 < len(s.Args); i += 2 {
				if old, ok := ex.mapGetNoFork(m, s.Args[i]); ok {
					ex.mapSet(m, s.Args[i], ex.doAppend(old, ex.strSlice([]*Term{s.Args[i+1]}), nil))
				} else {
					m.Entries = append(m.Entries, MapEntry{K: s.Args[i], V: ex.strSlice([]*Term{s.Args[i+1]})})
				}
			}
			return Tuple{m, Iface{}}
		}
		panic(engineErr("url.ParseQuery of an unstructured symbolic string"))
	})

	// net.ParseIP(s).IsLoopback()
	reg("net.ParseIP", func(ex *Exec, fn *ssa.Function, a []Value) Value {
		s := a[0].(*Term)
		o := ex.newOpaque("ip")
		o.Attrs["s"] = s
		return BytesV{T: UF("ip.bytes", SSeq, s)}
	})
	reg("(net.IP).IsLoopback", func(ex *Exec, fn *ssa.Function, a []Value) Value {
		b := ex.bytesTerm(a[0])
		if b.Op == "uf" && b.Name == "uf_"+mangle("ip.bytes") {
			s := b.Args[0]
			if s.IsLit() {
				return BoolLit(net.ParseIP(s.S).IsLoopback())
			}
			ex.ufUse++
			return UF("ip.loopback", SBool, s)
		}
		panic(engineErr("IsLoopback on an IP not produced by net.ParseIP"))
	})

	glob := func(name string, host func(p, s string) (bool, error)) Intrinsic {
		return func(ex *Exec, fn *ssa.Function, a []Value) Value {
			p, s := a[0].(*Term), a[1].(*Term)
			if p.IsLit() && s.IsLit() && host != nil {
				ok, err := host(p.S, s.S)
				if err != nil {
					return Tuple{tFalse, errorIface(ex, name+".badpattern")}
				}
				return Tuple{BoolLit(ok), Iface{}}
			}
			if p.IsLit() && !hasGlobMeta(p.S) {
				return Tuple{Eq(p, s), Iface{}}
			}
			if p.IsLit() && host != nil {
				if _, err := host(p.S, ""); err != nil {
					return Tuple{tFalse, errorIface(ex, name+".badpattern")}
				}
				ex.ufUse++
				return Tuple{UF(name+".match", SBool, p, s), Iface{}}
			}
			ex.ufUse++
			if ex.Branch(UF(name+".bad", SBool, p)) {
				return Tuple{tFalse, errorIface(ex, name+".badpattern")}
			}
			return Tuple{UF(name+".match", SBool, p, s), Iface{}}
		}
	}
	reg("path.Match", glob("path", path.Match))
	reg("github.com/bmatcuk/doublestar/v4.Match", glob("doublestar", nil))
}
