package main

import (
	"sync"
	"crypto/sha256"
	"fmt"
	"go/token"
	"go/types"
	"os"
	"path/filepath"
	"sort"
	"strings"

	"golang.org/x/tools/go/packages"
	"golang.org/x/tools/go/ssa"
	"golang.org/x/tools/go/ssa/ssautil"
)

const repoMod = "github.com/zitadel/oidc/v3"
const ndPkg = repoMod + "/internal/verifnd"

type Engine struct {
	prog     *ssa.Program
	fset     *token.FileSet
	pkgs     map[string]*ssa.Package
	repoDir  string
	overlay  map[string][]byte
	srcCache map[string][]byte
	initFns  []*ssa.Function // repo package inits, dependency order
	typeByName map[string]types.Type
}

// Load builds SSA for the given repo packages (patterns relative to repoDir) with
// the overlay files injected. Everything comes from the current working tree.
func Load(repoDir string, overlay map[string][]byte, patterns []string) (*Engine, error) {
	fset := token.NewFileSet()
	cfg := &packages.Config{
		Mode:    packages.LoadAllSyntax,
		Dir:     repoDir,
		Fset:    fset,
		Overlay: overlay,
		Env:     append(os.Environ(), "GOFLAGS=-mod=mod", "GOPROXY=off"),
	}
	pkgs, err := packages.Load(cfg, patterns...)
	if err != nil {
		return nil, err
	}
	var errs []string
	packages.Visit(pkgs, nil, func(p *packages.Package) {
		for _, e := range p.Errors {
			errs = append(errs, e.Error())
		}
	})
	if len(errs) > 0 {
		return nil, fmt.Errorf("load errors:\n%s", strings.Join(errs, "\n"))
	}
	prog, spkgs := ssautil.AllPackages(pkgs, ssa.InstantiateGenerics)
	prog.Build()
	e := &Engine{prog: prog, fset: fset, pkgs: map[string]*ssa.Package{}, repoDir: repoDir, overlay: overlay, srcCache: map[string][]byte{}, typeByName: map[string]types.Type{}}
	_ = spkgs
	for _, p := range prog.AllPackages() {
		e.pkgs[p.Pkg.Path()] = p
	}
	return e, nil
}

func (e *Engine) Func(pkgPath, name string) *ssa.Function {
	p := e.pkgs[pkgPath]
	if p == nil {
		return nil
	}
	return p.Func(name)
}

// LookupType finds a (possibly unexported) named type in a loaded package.
var typeMu sync.Mutex

func (e *Engine) LookupType(pkgPath, name string) types.Type {
	key := pkgPath + "." + name
	typeMu.Lock()
	defer typeMu.Unlock()
	if t, ok := e.typeByName[key]; ok {
		return t
	}
	p := e.pkgs[pkgPath]
	if p == nil {
		return nil
	}
	o := p.Pkg.Scope().Lookup(name)
	if o == nil {
		return nil
	}
	e.typeByName[key] = o.Type()
	return o.Type()
}

func isRepoPkg(path string) bool {
	return path == repoMod || strings.HasPrefix(path, repoMod+"/")
}

// source span hash of a function, for evidence.
func (e *Engine) funcInfo(fn *ssa.Function) (file string, hash string) {
	if fn.Syntax() == nil {
		if fn.Pos().IsValid() {
			p := e.fset.Position(fn.Pos())
			return p.Filename, ""
		}
		return "", ""
	}
	start := e.fset.Position(fn.Syntax().Pos())
	end := e.fset.Position(fn.Syntax().End())
	src, ok := e.srcCache[start.Filename]
	if !ok {
		if b, ok2 := e.overlay[start.Filename]; ok2 {
			src = b
		} else {
			src, _ = os.ReadFile(start.Filename)
		}
		e.srcCache[start.Filename] = src
	}
	if start.Offset >= 0 && end.Offset <= len(src) && start.Offset < end.Offset {
		h := sha256.Sum256(src[start.Offset:end.Offset])
		rel, err := filepath.Rel(e.repoDir, start.Filename)
		if err != nil {
			rel = start.Filename
		}
		return rel, fmt.Sprintf("%x", h[:8])
	}
	return start.Filename, ""
}

func sortedKeys[V any](m map[string]V) []string {
	ks := make([]string, 0, len(m))
	for k := range m {
		ks = append(ks, k)
	}
	sort.Strings(ks)
	return ks
}
