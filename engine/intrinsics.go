package main

// Environment model: library calls that leave the repository. Every entry is part of
// the trusted base and is listed in evidence when used.

import (
	"time"
	"sync"
	"fmt"
	"go/token"
	"go/types"
	"math/big"
	"strings"

	"golang.org/x/tools/go/ssa"
)

type Intrinsic func(ex *Exec, fn *ssa.Function, args []Value) Value

var intrinsics = map[string]Intrinsic{}
var opaqueMethods = map[string]func(ex *Exec, o *Opaque, args []Value) Value{}

func intrinsicName(fn *ssa.Function) string {
	if o := fn.Origin(); o != nil {
		return o.String()
	}
	s := fn.String()
	// bound-method and thunk wrappers keep their base name
	s = strings.TrimSuffix(s, "$bound")
	s = strings.TrimSuffix(s, "$thunk")
	return s
}

func lookupIntrinsic(fn *ssa.Function) (Intrinsic, bool) {
	name := intrinsicName(fn)
	if i, ok := intrinsics[name]; ok {
		// $bound wrappers take the receiver as a free variable, handled by executing the wrapper
		if strings.HasSuffix(fn.String(), "$bound") || strings.HasSuffix(fn.String(), "$thunk") {
			return nil, false
		}
		return i, true
	}
	if fn.Pkg != nil && !isRepoPkg(fn.Pkg.Pkg.Path()) && fn.Name() == "init" {
		return func(ex *Exec, fn *ssa.Function, args []Value) Value { return nil }, true
	}
	if fn.Pkg != nil {
		p := fn.Pkg.Pkg.Path()
		if noopPkgs[p] {
			return noopIntrinsic, true
		}
	}
	return nil, false
}

var noopPkgs = map[string]bool{
	"log/slog": true,
	"log":      true,
	"github.com/zitadel/logging": true,
	"html/template": true,
	"github.com/rs/cors": true,
}

func noopIntrinsic(ex *Exec, fn *ssa.Function, args []Value) Value {
	res := fn.Signature.Results()
	switch res.Len() {
	case 0:
		return nil
	case 1:
		return ex.opaqueZero(res.At(0).Type(), fn.String())
	}
	t := make(Tuple, res.Len())
	for i := range t {
		t[i] = ex.opaqueZero(res.At(i).Type(), fn.String())
	}
	return t
}

// opaqueZero: a harmless value of a library type (loggers, attrs).
func (ex *Exec) opaqueZero(t types.Type, from string) Value {
	switch u := t.Underlying().(type) {
	case *types.Pointer:
		if _, ok := u.Elem().Underlying().(*types.Struct); ok {
			return Ptr{Obj: ex.newObj(&Opaque{Kind: "noop"}, u.Elem())}
		}
	case *types.Interface:
		if n, ok := t.(*types.Named); ok && n.Obj().Name() == "error" && n.Obj().Pkg() == nil {
			return Iface{}
		}
		return ex.opaqueIface("noop")
	}
	return zeroValue(t)
}

// allowedBody: library packages whose pure-Go bodies may be executed from SSA.
var bodyPkgs = map[string]bool{
	"errors": true, "fmt": true, "net/url": true, "slices": true, "maps": true, "sort": true,
	"github.com/muhlemmer/gu": true, "strings": true, "bytes": true, "unicode/utf8": true,
	"iter": true, "cmp": true, "path": true, "internal/bytealg": false,
	"net/http": true, "net/textproto": false, "context": false, "strconv": true,
	"golang.org/x/oauth2": true, "github.com/go-jose/go-jose/v4": true,
	"internal/stringslite": true, "math/bits": true, "math": true, "unicode": true,
	"github.com/zitadel/oidc/v3/pkg/strings": true,
}

func allowedBody(fn *ssa.Function) bool {
	if fn.Pkg == nil {
		// synthetic wrappers / instantiations: judge by the origin's or the receiver's package
		if o := fn.Origin(); o != nil && o.Pkg != nil {
			return isRepoPkg(o.Pkg.Pkg.Path()) || bodyPkgs[o.Pkg.Pkg.Path()]
		}
		if fn.Object() != nil && fn.Object().Pkg() != nil {
			p := fn.Object().Pkg().Path()
			return isRepoPkg(p) || bodyPkgs[p]
		}
		return true
	}
	p := fn.Pkg.Pkg.Path()
	return isRepoPkg(p) || bodyPkgs[p]
}

var opaqueTypes = map[string]types.Type{}

var opaqueMu sync.Mutex

func opaqueType(kind string) types.Type {
	opaqueMu.Lock()
	defer opaqueMu.Unlock()
	if t, ok := opaqueTypes[kind]; ok {
		return t
	}
	t := types.NewNamed(types.NewTypeName(token.NoPos, nil, "opaque."+kind, nil), types.NewStruct(nil, nil), nil)
	opaqueTypes[kind] = t
	return t
}

func (ex *Exec) newOpaque(kind string) *Opaque {
	ex.nextID++
	return &Opaque{ID: ex.nextID, Kind: kind, Attrs: map[string]Value{}}
}

func (ex *Exec) opaqueIface(kind string) Iface {
	return Iface{T: opaqueType(kind), V: ex.newOpaque(kind)}
}

// which interfaces opaque kinds satisfy
func opaqueImplements(o *Opaque, t types.Type) bool {
	switch o.Kind {
	case "ctx":
		return namedIs(t, "context", "Context")
	case "noop":
		return true
	}
	if n, ok := t.(*types.Named); ok {
		if v, ok := o.Attrs["implements:"+n.Obj().Name()]; ok {
			return v.(*Term).B
		}
	}
	return false
}

// libGlobal supplies initial values of library package-level variables.
func libGlobal(ex *Exec, g *ssa.Global) (Value, bool) {
	if g.Pkg == nil || isRepoPkg(g.Pkg.Pkg.Path()) {
		return nil, false
	}
	name := g.Pkg.Pkg.Path() + "." + g.Name()
	switch name {
	case "encoding/base64.RawURLEncoding", "encoding/base64.URLEncoding", "encoding/base64.StdEncoding", "encoding/base64.RawStdEncoding":
		o := ex.newOpaque("b64enc")
		o.Attrs["name"] = StrLit(g.Name())
		return Ptr{Obj: ex.newObj(o, nil)}, true
	case "context.DeadlineExceeded", "context.Canceled", "io.EOF", "io.ErrUnexpectedEOF", "net/http.ErrNoCookie", "net/http.ErrUseLastResponse", "net/http.ErrNoLocation",
		"crypto/rand.Reader", "os.Stderr", "os.Stdout":
		key := "libglobal:" + name
		if v, ok := ex.memo[key]; ok {
			return v, true
		}
		o := ex.newOpaque("libval:" + name)
		v := Iface{T: opaqueType("libval:" + name), V: o}
		ex.memo[key] = v
		return v, true
	case "net/http.DefaultClient":
		elem := g.Type().(*types.Pointer).Elem().(*types.Pointer).Elem()
		o := ex.newObj(zeroValue(elem), elem)
		o.Label = "global"
		o.Name = "net/http.DefaultClient"
		return Ptr{Obj: o}, true
	case "golang.org/x/text/language.Und":
		return zeroValue(g.Type().(*types.Pointer).Elem()), true
	case "golang.org/x/oauth2.HTTPClient":
		return zeroValue(g.Type().(*types.Pointer).Elem()), true
	}
	if strings.HasSuffix(name, "$guard") || strings.Contains(g.Name(), "init$") {
		return nil, false
	}
	panic(engineErr("read of unmodelled library global %s [%s]", name, ex.where()))
}

func reg(name string, f Intrinsic) { intrinsics[name] = f }

func errorIface(ex *Exec, kind string) Iface {
	// a fresh library error value with identity
	o := ex.newOpaque("error")
	o.Attrs["kind"] = StrLit(kind)
	o.Attrs["msg"] = ex.fresh("errmsg."+kind, SSeq, "env")
	return Iface{T: opaqueType("error"), V: o}
}

func boolTerm(v Value) *Term { return v.(*Term) }

func init() {
	// ---------- otel / logging ----------
	reg("go.opentelemetry.io/otel.Tracer", func(ex *Exec, fn *ssa.Function, a []Value) Value { return ex.opaqueIface("tracer") })
	opaqueMethods["tracer.Start"] = func(ex *Exec, o *Opaque, a []Value) Value {
		return Tuple{a[0], ex.opaqueIface("span")}
	}
	for _, m := range []string{"End", "SetAttributes", "RecordError", "SetStatus", "AddEvent", "SetName"} {
		opaqueMethods["span."+m] = func(ex *Exec, o *Opaque, a []Value) Value { return nil }
	}
	for _, m := range []string{"Error", "Info", "Debug", "Warn", "Log", "ErrorContext", "InfoContext", "DebugContext", "WarnContext"} {
		opaqueMethods["noop."+m] = func(ex *Exec, o *Opaque, a []Value) Value { return nil }
	}

	// ---------- errors ----------
	reg("errors.Is", func(ex *Exec, fn *ssa.Function, a []Value) Value { return BoolLit(ex.errorsIs(a[0].(Iface), a[1].(Iface))) })
	reg("errors.As", func(ex *Exec, fn *ssa.Function, a []Value) Value { return BoolLit(ex.errorsAs(a[0].(Iface), a[1].(Iface))) })
	opaqueMethods["error.Error"] = func(ex *Exec, o *Opaque, a []Value) Value { return o.Attrs["msg"] }
	opaqueMethods["error.Timeout"] = func(ex *Exec, o *Opaque, a []Value) Value { return tFalse }

	// ---------- fmt ----------
	reg("fmt.Errorf", func(ex *Exec, fn *ssa.Function, a []Value) Value { return ex.fmtErrorf(a[0].(*Term), a[1].(SliceV)) })
	reg("fmt.Sprintf", func(ex *Exec, fn *ssa.Function, a []Value) Value {
		msg, _ := ex.format(a[0].(*Term), a[1].(SliceV))
		return msg
	})
	reg("fmt.Sprint", func(ex *Exec, fn *ssa.Function, a []Value) Value {
		s := a[0].(SliceV)
		parts := []*Term{}
		for k := 0; k < s.Len; k++ {
			parts = append(parts, ex.fmtArg('v', s.get(k)))
		}
		return SeqConcat(parts...)
	})
	reg("fmt.Fprintln", func(ex *Exec, fn *ssa.Function, a []Value) Value {
		s := a[1].(SliceV)
		parts := []*Term{}
		for k := 0; k < s.Len; k++ {
			if k > 0 {
				parts = append(parts, StrLit(" "))
			}
			parts = append(parts, ex.fmtArg('v', s.get(k)))
		}
		parts = append(parts, StrLit("\n"))
		return ex.writeTo(a[0], SeqConcat(parts...))
	})
	reg("fmt.Fprintf", func(ex *Exec, fn *ssa.Function, a []Value) Value {
		msg, _ := ex.format(a[1].(*Term), a[2].(SliceV))
		return ex.writeTo(a[0], msg)
	})
	reg("fmt.Fprint", func(ex *Exec, fn *ssa.Function, a []Value) Value {
		s := a[1].(SliceV)
		parts := []*Term{}
		for k := 0; k < s.Len; k++ {
			parts = append(parts, ex.fmtArg('v', s.get(k)))
		}
		return ex.writeTo(a[0], SeqConcat(parts...))
	})

	// ---------- strings (S-variant aware) ----------
	reg("strings.HasPrefix", func(ex *Exec, fn *ssa.Function, a []Value) Value { return SeqPrefixOf(a[1].(*Term), a[0].(*Term)) })
	reg("strings.HasSuffix", func(ex *Exec, fn *ssa.Function, a []Value) Value { return SeqSuffixOf(a[1].(*Term), a[0].(*Term)) })
	reg("strings.Contains", func(ex *Exec, fn *ssa.Function, a []Value) Value { return SeqContains(a[0].(*Term), a[1].(*Term)) })
	reg("strings.TrimPrefix", func(ex *Exec, fn *ssa.Function, a []Value) Value {
		s, p := a[0].(*Term), a[1].(*Term)
		c := SeqPrefixOf(p, s)
		n := SeqLen(p)
		return Ite(c, SeqExtract(s, n, Sub(SeqLen(s), n)), s)
	})
	reg("strings.TrimSuffix", func(ex *Exec, fn *ssa.Function, a []Value) Value {
		s, p := a[0].(*Term), a[1].(*Term)
		c := SeqSuffixOf(p, s)
		return Ite(c, SeqExtract(s, IntLit(0), Sub(SeqLen(s), SeqLen(p))), s)
	})
	reg("strings.Split", func(ex *Exec, fn *ssa.Function, a []Value) Value { return ex.stringsSplit(a[0].(*Term), a[1].(*Term)) })
	reg("strings.Join", func(ex *Exec, fn *ssa.Function, a []Value) Value {
		s := a[0].(SliceV)
		sep := a[1].(*Term)
		parts := []*Term{}
		for k := 0; k < s.Len; k++ {
			if k > 0 {
				parts = append(parts, sep)
			}
			parts = append(parts, s.get(k).(*Term))
		}
		return SeqConcat(parts...)
	})
	reg("strings.EqualFold", func(ex *Exec, fn *ssa.Function, a []Value) Value {
		x, y := a[0].(*Term), a[1].(*Term)
		if x.IsLit() && y.IsLit() {
			return BoolLit(strings.EqualFold(x.S, y.S))
		}
		return UF("strings.EqualFold", SBool, x, y)
	})
	reg("strings.ToLower", func(ex *Exec, fn *ssa.Function, a []Value) Value {
		x := a[0].(*Term)
		if x.IsLit() {
			return StrLit(strings.ToLower(x.S))
		}
		return UF("strings.ToLower", SSeq, x)
	})
	reg("strings.Index", func(ex *Exec, fn *ssa.Function, a []Value) Value { return SeqIndexOf(a[0].(*Term), a[1].(*Term)) })
	reg("strings.IndexByte", func(ex *Exec, fn *ssa.Function, a []Value) Value {
		if bt := a[1].(*Term); bt.IsLit() {
			if k, found, ok := ex.byteVectorIndex(a[0].(*Term), StrLit(string([]byte{byte(bt.I.Int64())}))); ok {
				if !found {
					return IntLit(-1)
				}
				return IntLit(int64(k))
			}
		}
		return SeqIndexOf(a[0].(*Term), SeqUnit(a[1].(*Term)))
	})
	reg("strings.Cut", func(ex *Exec, fn *ssa.Function, a []Value) Value {
		s, sep := a[0].(*Term), a[1].(*Term)
		if s.IsLit() && sep.IsLit() {
			b, af, f := strings.Cut(s.S, sep.S)
			return Tuple{StrLit(b), StrLit(af), BoolLit(f)}
		}
		if k, found, ok := ex.byteVectorIndex(s, sep); ok {
			// a byte vector (concrete length) and a one-byte separator: position decided byte by byte
			bs, _ := seqBytes(s)
			if !found {
				return Tuple{s, StrLit(""), tFalse}
			}
			return Tuple{seqFromBytes(bs[:k]), seqFromBytes(bs[k+1:]), tTrue}
		}
		if ex.Branch(SeqContains(s, sep)) {
			i := SeqIndexOf(s, sep)
			return Tuple{SeqExtract(s, IntLit(0), i), SeqExtract(s, Add(i, SeqLen(sep)), Sub(SeqLen(s), Add(i, SeqLen(sep)))), tTrue}
		}
		return Tuple{s, StrLit(""), tFalse}
	})
	reg("strings.NewReader", func(ex *Exec, fn *ssa.Function, a []Value) Value {
		o := ex.newOpaque("reader")
		o.Attrs["data"] = a[0]
		return Ptr{Obj: ex.newObj(o, nil)}
	})
	reg("bytes.Equal", func(ex *Exec, fn *ssa.Function, a []Value) Value { return Eq(ex.bytesTerm(a[0]), ex.bytesTerm(a[1])) })
	reg("bytes.HasPrefix", func(ex *Exec, fn *ssa.Function, a []Value) Value {
		return SeqPrefixOf(ex.bytesTerm(a[1]), ex.bytesTerm(a[0]))
	})
	reg("bytes.HasSuffix", func(ex *Exec, fn *ssa.Function, a []Value) Value {
		return SeqSuffixOf(ex.bytesTerm(a[1]), ex.bytesTerm(a[0]))
	})
	reg("strconv.Itoa", func(ex *Exec, fn *ssa.Function, a []Value) Value {
		x := a[0].(*Term)
		if x.IsLit() {
			return StrLit(x.I.String())
		}
		return UF("itoa", SSeq, x)
	})
	reg("strconv.FormatInt", func(ex *Exec, fn *ssa.Function, a []Value) Value {
		x := a[0].(*Term)
		if x.IsLit() && a[1].(*Term).IsLit() {
			return StrLit(x.I.Text(int(a[1].(*Term).I.Int64())))
		}
		return UF("itoa", SSeq, x)
	})

	// strings.Builder
	reg("(*strings.Builder).WriteString", func(ex *Exec, fn *ssa.Function, a []Value) Value {
		ex.builderAppend(a[0].(Ptr), a[1].(*Term))
		return Tuple{SeqLen(a[1].(*Term)), Iface{}}
	})
	reg("(*strings.Builder).WriteByte", func(ex *Exec, fn *ssa.Function, a []Value) Value {
		ex.builderAppend(a[0].(Ptr), SeqUnit(a[1].(*Term)))
		return Iface{}
	})
	reg("(*strings.Builder).WriteRune", func(ex *Exec, fn *ssa.Function, a []Value) Value {
		r := a[1].(*Term)
		if r.IsLit() {
			s := string(rune(r.I.Int64()))
			ex.builderAppend(a[0].(Ptr), StrLit(s))
			return Tuple{IntLit(int64(len(s))), Iface{}}
		}
		ex.assume(And(Ge(r, IntLit(0)), Lt(r, IntLit(128))))
		ex.run.note("WriteRune of a symbolic rune: restricted to ASCII")
		ex.builderAppend(a[0].(Ptr), SeqUnit(Int2BV(r)))
		return Tuple{IntLit(1), Iface{}}
	})
	reg("(*strings.Builder).String", func(ex *Exec, fn *ssa.Function, a []Value) Value { return ex.builderGet(a[0].(Ptr)) })
	reg("(*strings.Builder).Len", func(ex *Exec, fn *ssa.Function, a []Value) Value { return SeqLen(ex.builderGet(a[0].(Ptr))) })
	reg("(*strings.Builder).Grow", func(ex *Exec, fn *ssa.Function, a []Value) Value {
		n := a[1].(*Term)
		if n.IsLit() {
			if n.I.Sign() < 0 {
				ex.goPanic("strings.Builder.Grow: negative count")
			}
		} else {
			ex.Oblige("panic", "strings.Builder.Grow: negative count", Ge(n, IntLit(0)))
		}
		return nil
	})
	reg("(*strings.Builder).Reset", func(ex *Exec, fn *ssa.Function, a []Value) Value {
		ex.builderSet(a[0].(Ptr), StrLit(""))
		return nil
	})

	// ---------- time ----------
	reg("time.Now", func(ex *Exec, fn *ssa.Function, a []Value) Value { return ex.clockRead() })
	reg("time.Unix", func(ex *Exec, fn *ssa.Function, a []Value) Value {
		return TimeV{NS: Add(Mul(a[0].(*Term), IntLit(1e9)), a[1].(*Term))}
	})
	reg("time.Since", func(ex *Exec, fn *ssa.Function, a []Value) Value { return Sub(ex.clockRead().NS, a[0].(TimeV).NS) })
	reg("time.Until", func(ex *Exec, fn *ssa.Function, a []Value) Value { return Sub(a[0].(TimeV).NS, ex.clockRead().NS) })
	reg("(time.Time).Add", func(ex *Exec, fn *ssa.Function, a []Value) Value { return TimeV{NS: Add(a[0].(TimeV).NS, a[1].(*Term))} })
	reg("(time.Time).Sub", func(ex *Exec, fn *ssa.Function, a []Value) Value { return Sub(a[0].(TimeV).NS, a[1].(TimeV).NS) })
	reg("(time.Time).Before", func(ex *Exec, fn *ssa.Function, a []Value) Value { return Lt(a[0].(TimeV).NS, a[1].(TimeV).NS) })
	reg("(time.Time).After", func(ex *Exec, fn *ssa.Function, a []Value) Value { return Gt(a[0].(TimeV).NS, a[1].(TimeV).NS) })
	reg("(time.Time).Equal", func(ex *Exec, fn *ssa.Function, a []Value) Value { return Eq(a[0].(TimeV).NS, a[1].(TimeV).NS) })
	reg("(time.Time).IsZero", func(ex *Exec, fn *ssa.Function, a []Value) Value { return Eq(a[0].(TimeV).NS, BigLit(zeroTimeNS)) })
	reg("(time.Time).Unix", func(ex *Exec, fn *ssa.Function, a []Value) Value { return DivE(a[0].(TimeV).NS, IntLit(1e9)) })
	reg("(time.Time).UnixNano", func(ex *Exec, fn *ssa.Function, a []Value) Value { return a[0].(TimeV).NS })
	reg("(time.Time).UTC", func(ex *Exec, fn *ssa.Function, a []Value) Value { return a[0] })
	reg("(time.Time).Local", func(ex *Exec, fn *ssa.Function, a []Value) Value { return a[0] })
	reg("(time.Time).Round", func(ex *Exec, fn *ssa.Function, a []Value) Value { return ex.timeRound(a[0].(TimeV), a[1].(*Term), true) })
	reg("(time.Time).Truncate", func(ex *Exec, fn *ssa.Function, a []Value) Value { return ex.timeRound(a[0].(TimeV), a[1].(*Term), false) })
	reg("(time.Time).String", func(ex *Exec, fn *ssa.Function, a []Value) Value { return UF("time.String", SSeq, a[0].(TimeV).NS) })
	reg("(time.Time).Format", func(ex *Exec, fn *ssa.Function, a []Value) Value { return UF("time.Format", SSeq, a[0].(TimeV).NS, a[1].(*Term)) })
	reg("(time.Duration).Seconds", func(ex *Exec, fn *ssa.Function, a []Value) Value {
		d := a[0].(*Term)
		if d.IsLit() {
			f, _ := new(big.Float).SetInt(d.I).Float64()
			return FloatLit(f / 1e9)
		}
		// float seconds of a symbolic duration: carried as an uninterpreted float tied to the duration
		return &Term{Op: "uf", Sort: SFP, Name: "uf_dur_seconds", Args: []*Term{d}}
	})
	reg("(time.Duration).String", func(ex *Exec, fn *ssa.Function, a []Value) Value { return UF("dur.String", SSeq, a[0].(*Term)) })
	reg("time.Parse", func(ex *Exec, fn *ssa.Function, a []Value) Value {
		l, s := a[0].(*Term), a[1].(*Term)
		if l.IsLit() && s.IsLit() {
			// concrete layout and value: decided exactly by the host library
			tt, err := time.Parse(l.S, s.S)
			if err != nil {
				return Tuple{zeroValue(fn.Signature.Results().At(0).Type()), errorIface(ex, "time.Parse")}
			}
			ns := new(big.Int).Mul(big.NewInt(tt.Unix()), big.NewInt(1000000000))
			ns.Add(ns, big.NewInt(int64(tt.Nanosecond())))
			return Tuple{TimeV{NS: BigLit(ns)}, Iface{}}
		}
		ok := UF("time.Parse.ok", SBool, l, s)
		if ex.Branch(ok) {
			ns := UF("time.Parse.ns", SInt, l, s)
			return Tuple{TimeV{NS: ns}, Iface{}}
		}
		return Tuple{zeroValue(fn.Signature.Results().At(0).Type()), errorIface(ex, "time.Parse")}
	})

	// ---------- slices ----------
	reg("slices.Contains", func(ex *Exec, fn *ssa.Function, a []Value) Value {
		s := a[0].(SliceV)
		var alts []*Term
		for k := 0; k < s.Len; k++ {
			alts = append(alts, ex.equal(s.get(k), a[1]))
		}
		return Or(alts...)
	})

	// ---------- base64 / hashes ----------
	reg("(*encoding/base64.Encoding).EncodeToString", func(ex *Exec, fn *ssa.Function, a []Value) Value {
		x := ex.bytesTerm(a[1])
		r := UF("b64enc", SSeq, x)
		ex.assume(Ge(SeqLen(r), SeqLen(x))) // every base64 variant: at least one character per byte
		return r
	})
	reg("(*encoding/base64.Encoding).DecodeString", func(ex *Exec, fn *ssa.Function, a []Value) Value {
		s := a[1].(*Term)
		if v, ok := ex.memo["b64dec:"+s.String()]; ok {
			return Tuple{v, Iface{}}
		}
		if s.Op == "uf" && s.Name == "uf_"+mangle("b64enc") {
			if bs, ok := seqBytes(s.Args[0]); ok && len(bs) > 0 {
				return Tuple{ex.newByteSlice(bs), Iface{}} // decode(encode(x)) = x, as a fresh mutable slice
			}
			return Tuple{BytesV{T: s.Args[0]}, Iface{}} // decode(encode(x)) = x
		}
		ok := UF("b64ok", SBool, s)
		if ex.Branch(ok) {
			return Tuple{BytesV{T: UF("b64dec", SSeq, s)}, Iface{}}
		}
		return Tuple{SliceV{}, errorIface(ex, "base64")}
	})
	reg("crypto/sha256.New", func(ex *Exec, fn *ssa.Function, a []Value) Value { return ex.newHash("sha256", 32) })
	reg("crypto/sha512.New", func(ex *Exec, fn *ssa.Function, a []Value) Value { return ex.newHash("sha512", 64) })
	reg("crypto/sha512.New384", func(ex *Exec, fn *ssa.Function, a []Value) Value { return ex.newHash("sha384", 48) })
	reg("crypto/sha256.Sum256", func(ex *Exec, fn *ssa.Function, a []Value) Value {
		return ex.hashArray("sha256", ex.bytesTerm(a[0]), 32)
	})
	opaqueMethods["hash.Write"] = func(ex *Exec, o *Opaque, a []Value) Value {
		o.Attrs["data"] = SeqConcat(o.Attrs["data"].(*Term), ex.bytesTerm(a[0]))
		return Tuple{SeqLen(ex.bytesTerm(a[0])), Iface{}}
	}
	opaqueMethods["hash.Size"] = func(ex *Exec, o *Opaque, a []Value) Value { return o.Attrs["size"] }
	opaqueMethods["hash.Reset"] = func(ex *Exec, o *Opaque, a []Value) Value { o.Attrs["data"] = StrLit(""); return nil }
	opaqueMethods["hash.Sum"] = func(ex *Exec, o *Opaque, a []Value) Value {
		// digest bytes: element i is the uninterpreted H(kind, data, i)
		n := int(o.Attrs["size"].(*Term).I.Int64())
		kind := o.Attrs["kind"].(*Term)
		data := o.Attrs["data"].(*Term)
		bs := make([]*Term, n)
		for i := 0; i < n; i++ {
			bs[i] = &Term{Op: "uf", Sort: SBV8, Name: "uf_hashbyte", Args: []*Term{kind, data, IntLit(int64(i))}}
		}
		pre := a[0]
		if s, ok := pre.(SliceV); ok && s.Len == 0 {
			return ex.newByteSlice(bs)
		}
		return ex.doAppend(pre, ex.newByteSlice(bs), nil)
	}

	// ---------- context ----------
	reg("context.Background", func(ex *Exec, fn *ssa.Function, a []Value) Value { return ex.newCtx(nil) })
	reg("context.TODO", func(ex *Exec, fn *ssa.Function, a []Value) Value { return ex.newCtx(nil) })
	reg("context.WithValue", func(ex *Exec, fn *ssa.Function, a []Value) Value {
		c := ex.newCtx(a[0])
		o := c.V.(*Opaque)
		o.Attrs["key"] = a[1]
		o.Attrs["val"] = a[2]
		return c
	})
	reg("context.WithTimeout", func(ex *Exec, fn *ssa.Function, a []Value) Value {
		c := ex.newCtx(a[0])
		return Tuple{c, &Closure{Name: "cancel", Host: func(ex *Exec, _ []Value) Value { return nil }}}
	})
	reg("context.WithCancel", func(ex *Exec, fn *ssa.Function, a []Value) Value {
		c := ex.newCtx(a[0])
		o := c.V.(*Opaque)
		return Tuple{c, &Closure{Name: "cancel", Host: func(ex *Exec, _ []Value) Value { ex.cancelCtx(o); return nil }}}
	})
	reg("context.WithDeadline", intrinsics["context.WithTimeout"])
	opaqueMethods["ctx.Value"] = func(ex *Exec, o *Opaque, a []Value) Value {
		for cur := o; cur != nil; {
			if k, ok := cur.Attrs["key"]; ok {
				if ki, ok := k.(Iface); ok {
					if ai, ok := a[0].(Iface); ok && ki.T != nil && ai.T != nil && types.Identical(ki.T, ai.T) {
						if t := ex.equal(ki.V, ai.V); t.IsLit() && t.B {
							return cur.Attrs["val"]
						}
					}
				}
			}
			p, ok := cur.Attrs["parent"]
			if !ok {
				break
			}
			cur = p.(Iface).V.(*Opaque)
		}
		return Iface{}
	}
	opaqueMethods["ctx.Err"] = func(ex *Exec, o *Opaque, a []Value) Value { return ex.ctxErr(o) }
	opaqueMethods["ctx.Done"] = func(ex *Exec, o *Opaque, a []Value) Value { return ex.ctxDone(o) }
	opaqueMethods["ctx.Deadline"] = func(ex *Exec, o *Opaque, a []Value) Value {
		return Tuple{TimeV{NS: BigLit(zeroTimeNS)}, tFalse}
	}
}

// ---------- helpers ----------

func (ex *Exec) newCtx(parent Value) Iface {
	o := ex.newOpaque("ctx")
	if parent != nil {
		if pi, ok := parent.(Iface); ok && pi.T != nil {
			o.Attrs["parent"] = pi
		}
	}
	return Iface{T: opaqueType("ctx"), V: o}
}

func (ex *Exec) ctxCancelled(o *Opaque) bool {
	for cur := o; cur != nil; {
		if c, ok := cur.Attrs["cancelled"]; ok && c.(*Term).B {
			return true
		}
		if _, cut := cur.Attrs["nocancel"]; cut {
			return false // context.WithoutCancel: cancellation of ancestors does not reach here
		}
		p, ok := cur.Attrs["parent"]
		if !ok {
			break
		}
		cur = p.(Iface).V.(*Opaque)
	}
	return false
}

func (ex *Exec) cancelCtx(o *Opaque) {
	o.Attrs["cancelled"] = tTrue
	if ch, ok := o.Attrs["done"]; ok {
		ch.(*ChanV).Closed = true
	}
	if ex.thr != nil {
		ex.thr.syncPoint(ex, "cancel")
	}
}

func (ex *Exec) ctxErr(o *Opaque) Value {
	if ex.ctxCancelled(o) {
		g := ex.eng.pkgs["context"].Var("Canceled")
		return copyVal(ex.globalObj(g).V)
	}
	return Iface{}
}

func (ex *Exec) ctxDone(o *Opaque) Value {
	if ex.thr != nil {
		// concurrency mode: one channel per context, ready whenever the context counts as cancelled
		if ch, ok := o.Attrs["done"]; ok {
			return ch
		}
		ex.nextID++
		ch := &ChanV{ID: ex.nextID, Ctx: o}
		o.Attrs["done"] = ch
		return ch
	}
	// one channel per cancellable root
	root := o
	for {
		if _, ok := root.Attrs["done"]; ok {
			break
		}
		p, ok := root.Attrs["parent"]
		if !ok {
			break
		}
		root = p.(Iface).V.(*Opaque)
	}
	if ch, ok := root.Attrs["done"]; ok {
		return ch
	}
	ex.nextID++
	ch := &ChanV{ID: ex.nextID, Closed: ex.ctxCancelled(o)}
	o.Attrs["done"] = ch
	return ch
}

func (ex *Exec) clockRead() TimeV {
	t := ex.fresh("now", SInt, "env")
	lo := new(big.Int).Mul(big.NewInt(1<<30), big.NewInt(1e9))
	hi := new(big.Int).Mul(big.NewInt(1<<32), big.NewInt(1e9))
	ex.assume(And(Ge(t, BigLit(lo)), Le(t, BigLit(hi))))
	if ex.lastNow != nil {
		ex.assume(Ge(t, ex.lastNow))
	}
	if ex.nowCount == 0 {
		ex.ghost["clock.first"] = t
	}
	ex.lastNow = t
	ex.nowCount++
	return TimeV{NS: t}
}

func (ex *Exec) timeRound(t TimeV, d *Term, round bool) Value {
	if !d.IsLit() {
		panic(engineErr("time.Round with symbolic duration"))
	}
	if d.I.Sign() <= 0 {
		return t
	}
	rel := Sub(t.NS, BigLit(zeroTimeNS))
	rem := ModE(rel, d)
	if !round {
		return TimeV{NS: Sub(t.NS, rem)}
	}
	return TimeV{NS: Ite(Lt(Add(rem, rem), d), Sub(t.NS, rem), Add(t.NS, Sub(d, rem)))}
}

func (ex *Exec) newHash(kind string, size int) Value {
	o := ex.newOpaque("hash")
	o.Attrs["kind"] = StrLit(kind)
	o.Attrs["size"] = IntLit(int64(size))
	o.Attrs["data"] = StrLit("")
	return Iface{T: opaqueType("hash"), V: o}
}

func (ex *Exec) hashArray(kind string, data *Term, n int) Value {
	arr := &ArrayV{Elems: make([]Value, n)}
	for i := 0; i < n; i++ {
		arr.Elems[i] = &Term{Op: "uf", Sort: SBV8, Name: "uf_hashbyte", Args: []*Term{StrLit(kind), data, IntLit(int64(i))}}
	}
	return arr
}

// strings.Builder state lives in its `buf` field as a BytesV.
func (ex *Exec) builderField(p Ptr) *Value {
	if p.Obj == nil {
		ex.goPanic("nil *strings.Builder")
	}
	s := (*p.slot()).(*StructV)
	return &s.Fields[len(s.Fields)-1]
}
func (ex *Exec) builderGet(p Ptr) *Term {
	f := ex.builderField(p)
	if b, ok := (*f).(BytesV); ok {
		return b.T
	}
	return StrLit("")
}
func (ex *Exec) builderSet(p Ptr, t *Term) { *ex.builderField(p) = BytesV{T: t} }
func (ex *Exec) builderAppend(p Ptr, t *Term) {
	ex.builderSet(p, SeqConcat(ex.builderGet(p), t))
}

// writeTo: io.Writer.Write(data) through dynamic dispatch.
func (ex *Exec) writeTo(w Value, data *Term) Value {
	iv := w.(Iface)
	if iv.T == nil {
		ex.goPanic("write to nil io.Writer")
	}
	wt := ex.eng.LookupType("io", "Writer").Underlying().(*types.Interface)
	m := wt.Method(0)
	return ex.invoke(iv, m, []Value{BytesV{T: data}})
}

// stringsSplit: exact on literals; on a symbolic string an exhaustive split on the number of parts (1..4).
func (ex *Exec) stringsSplit(s, sep *Term) Value {
	mkSlice := func(parts []*Term) Value {
		arr := &ArrayV{Elems: make([]Value, len(parts))}
		for i, p := range parts {
			arr.Elems[i] = p
		}
		return SliceV{Arr: ex.newObj(arr, nil), Len: len(parts), Cap: len(parts)}
	}
	if s.IsLit() && sep.IsLit() {
		ps := strings.Split(s.S, sep.S)
		ts := make([]*Term, len(ps))
		for i, p := range ps {
			ts[i] = StrLit(p)
		}
		return mkSlice(ts)
	}
	if c, ok := ex.carrierOf(s); ok && sep.IsLit() && sep.S == "." {
		return mkSlice([]*Term{c.parts[0], c.parts[1], c.parts[2]})
	}
	if !sep.IsLit() || sep.S == "" {
		panic(engineErr("strings.Split with symbolic or empty separator"))
	}
	// structural case: a concatenation of literals and symbolic parts known to be free of sep
	if len(sep.S) == 1 {
		ok := true
		var cur []*Term
		var out []*Term
		for _, p := range seqParts(s) {
			if p.IsLit() {
				pieces := strings.Split(p.S, sep.S)
				for i, pc := range pieces {
					if i > 0 {
						out = append(out, SeqConcat(cur...))
						cur = nil
					}
					if pc != "" {
						cur = append(cur, StrLit(pc))
					}
				}
				continue
			}
			if p.Op == "seq.unit" || !ex.knownNoContain(p, sep.S) {
				ok = false
				break
			}
			cur = append(cur, p)
		}
		if ok {
			out = append(out, SeqConcat(cur...))
			return mkSlice(out)
		}
	}
	maxParts := ex.run.cfg.MaxSplit
	n := ex.Choose(maxParts) + 1
	base := fmt.Sprintf("split%d", ex.counters["split"])
	ex.counters["split"]++
	parts := make([]*Term, n)
	var joined []*Term
	for i := 0; i < n; i++ {
		parts[i] = ex.fresh(fmt.Sprintf("%s.p%d", base, i), SSeq, "env")
		if i > 0 {
			joined = append(joined, sep)
		}
		joined = append(joined, parts[i])
		if i < n-1 || n < maxParts {
			ex.assume(Not(SeqContains(parts[i], sep)))
		}
		// the last case (n == maxParts) stands for "maxParts or more": its last part may contain sep
	}
	ex.assume(Eq(s, SeqConcat(joined...)))
	if n == maxParts {
		ex.run.note(fmt.Sprintf("strings.Split: %d-or-more parts merged into one case", maxParts))
	}
	return mkSlice(parts)
}

// ---------- errors.Is / As ----------

func (ex *Exec) errMethod(e Iface, name string) (*ssa.Function, bool) {
	if e.T == nil {
		return nil, false
	}
	if _, ok := e.V.(*Opaque); ok {
		return nil, false
	}
	ms := ex.eng.prog.MethodSets.MethodSet(e.T)
	for k := 0; k < ms.Len(); k++ {
		if ms.At(k).Obj().Name() == name {
			fn := ex.eng.prog.MethodValue(ms.At(k))
			return fn, fn != nil
		}
	}
	return nil, false
}

func (ex *Exec) errUnwrap(e Iface) []Iface {
	if fn, ok := ex.errMethod(e, "Unwrap"); ok {
		r := ex.callFunction(fn, []Value{e.V}, nil)
		switch x := r.(type) {
		case Iface:
			if x.T != nil {
				return []Iface{x}
			}
		case SliceV:
			var out []Iface
			for k := 0; k < x.Len; k++ {
				if i := x.get(k).(Iface); i.T != nil {
					out = append(out, i)
				}
			}
			return out
		}
	}
	return nil
}

func (ex *Exec) errorsIs(err, target Iface) bool {
	if err.T == nil || target.T == nil {
		return err.T == nil && target.T == nil
	}
	if types.Comparable(err.T) && types.Identical(err.T, target.T) {
		if ex.Branch(ex.equal(err.V, target.V)) {
			return true
		}
	}
	if fn, ok := ex.errMethod(err, "Is"); ok && fn.Signature.Params().Len() == 1 {
		r := ex.callFunction(fn, []Value{err.V, target}, nil)
		if ex.Branch(r.(*Term)) {
			return true
		}
	}
	for _, u := range ex.errUnwrap(err) {
		if ex.errorsIs(u, target) {
			return true
		}
	}
	return false
}

func (ex *Exec) errorsAs(err, target Iface) bool {
	if target.T == nil {
		ex.goPanic("errors.As: target cannot be nil")
	}
	pt, ok := target.T.Underlying().(*types.Pointer)
	if !ok {
		ex.goPanic("errors.As: target must be a non-nil pointer")
	}
	want := pt.Elem()
	tp := target.V.(Ptr)
	for cur := []Iface{err}; len(cur) > 0; {
		e := cur[0]
		cur = cur[1:]
		if e.T == nil {
			continue
		}
		match := false
		if it, isI := want.Underlying().(*types.Interface); isI {
			if _, isOp := e.V.(*Opaque); !isOp {
				match = types.Implements(e.T, it)
			} else {
				match = opaqueImplements(e.V.(*Opaque), want)
			}
			if match {
				*tp.slot() = e
				return true
			}
		} else if types.Identical(e.T, want) {
			*tp.slot() = copyVal(e.V)
			return true
		}
		if fn, ok := ex.errMethod(e, "As"); ok {
			r := ex.callFunction(fn, []Value{e.V, target}, nil)
			if ex.Branch(r.(*Term)) {
				return true
			}
		}
		cur = append(ex.errUnwrap(e), cur...)
	}
	return false
}

// errorString calls err.Error().
func (ex *Exec) errorString(e Iface) *Term {
	if e.T == nil {
		return StrLit("<nil>")
	}
	if o, ok := e.V.(*Opaque); ok {
		if m, ok := o.Attrs["msg"]; ok {
			return m.(*Term)
		}
		return StrLit(o.Kind)
	}
	if fn, ok := ex.errMethod(e, "Error"); ok {
		return ex.callFunction(fn, []Value{e.V}, nil).(*Term)
	}
	return ex.fresh("errstr", SSeq, "env")
}

// ---------- fmt ----------

func (ex *Exec) fmtArg(verb byte, v Value) *Term {
	switch x := v.(type) {
	case Iface:
		if x.T == nil {
			return StrLit("<nil>")
		}
		if verb == 'T' {
			return StrLit(x.T.String())
		}
		// error or Stringer
		if fn, ok := ex.errMethod(x, "Error"); ok && fn != nil {
			return ex.callFunction(fn, []Value{x.V}, nil).(*Term)
		}
		if o, ok := x.V.(*Opaque); ok {
			if m, ok := o.Attrs["msg"]; ok {
				return m.(*Term)
			}
		}
		if fn, ok := ex.errMethod(x, "String"); ok && fn != nil && fn.Signature.Params().Len() == 0 {
			return ex.callFunction(fn, []Value{x.V}, nil).(*Term)
		}
		return ex.fmtArg(verb, x.V)
	case *Term:
		switch x.Sort {
		case SSeq:
			if verb == 'q' {
				if x.IsLit() {
					return StrLit(fmt.Sprintf("%q", x.S))
				}
				return UF("quote", SSeq, x)
			}
			return x
		case SInt:
			if x.IsLit() {
				return StrLit(x.I.String())
			}
			return UF("itoa", SSeq, x)
		case SBool:
			return Ite(x, StrLit("true"), StrLit("false"))
		case SBV8:
			return UF("itoa", SSeq, BV2Int(x))
		}
	case TimeV:
		return UF("time.String", SSeq, x.NS)
	}
	return ex.fresh("fmtarg", SSeq, "env")
}

// format implements the subset of fmt verbs used by the repository; returns the text and %w operands.
func (ex *Exec) format(f *Term, args SliceV) (*Term, []Iface) {
	if !f.IsLit() {
		// a byte-vector format without arguments: unchanged unless it contains a '%' (decided byte by byte)
		if bs, ok := seqBytes(f); ok && args.Len == 0 {
			verb := false
			for _, b := range bs {
				if b.IsLit() {
					if byte(b.I.Int64()) == '%' {
						verb = true
					}
				} else if ex.Branch(Eq(b, ByteLit('%'))) {
					verb = true
				}
			}
			if !verb {
				return f, nil
			}
			// the only '%' is the last byte: fmt prints the text before it followed by "%!(NOVERB)"
			last := bs[len(bs)-1]
			onlyLast := true
			for _, b := range bs[:len(bs)-1] {
				if !b.IsLit() || byte(b.I.Int64()) == '%' {
					if !b.IsLit() {
						if eq := Eq(b, ByteLit('%')); ex.feasible(eq) && !ex.feasible(Not(eq)) {
							onlyLast = false
						}
					} else {
						onlyLast = false
					}
				}
			}
			if onlyLast && (last.IsLit() && byte(last.I.Int64()) == '%' || !last.IsLit() && !ex.feasible(Not(Eq(last, ByteLit('%'))))) {
				return SeqConcat(seqFromBytes(bs[:len(bs)-1]), StrLit("%!(NOVERB)")), nil
			}
		}
		return ex.fresh("fmtmsg", SSeq, "env"), nil
	}
	var parts []*Term
	var wrapped []Iface
	s := f.S
	ai := 0
	for i := 0; i < len(s); i++ {
		if s[i] != '%' {
			j := i
			for j < len(s) && s[j] != '%' {
				j++
			}
			parts = append(parts, StrLit(s[i:j]))
			i = j - 1
			continue
		}
		i++
		if i >= len(s) {
			break
		}
		for i < len(s) && strings.ContainsRune("+-# 0123456789.", rune(s[i])) {
			i++
		}
		if i >= len(s) {
			break
		}
		verb := s[i]
		if verb == '%' {
			parts = append(parts, StrLit("%"))
			continue
		}
		if ai >= args.Len {
			parts = append(parts, StrLit("%!"+string(verb)+"(MISSING)"))
			continue
		}
		arg := args.get(ai)
		ai++
		if verb == 'w' {
			if iv, ok := arg.(Iface); ok && iv.T != nil {
				wrapped = append(wrapped, iv)
			}
		}
		parts = append(parts, ex.fmtArg(verb, arg))
	}
	return SeqConcat(parts...), wrapped
}

func (ex *Exec) fmtErrorf(f *Term, args SliceV) Value {
	msg, wrapped := ex.format(f, args)
	switch len(wrapped) {
	case 0:
		t := ex.eng.LookupType("fmt", "fmtError") // does not exist: use errors.errorString
		_ = t
		es := ex.eng.LookupType("errors", "errorString")
		obj := ex.newObj(&StructV{Fields: []Value{msg}}, es)
		return Iface{T: types.NewPointer(es), V: Ptr{Obj: obj}}
	case 1:
		wt := ex.eng.LookupType("fmt", "wrapError")
		obj := ex.newObj(&StructV{Fields: []Value{msg, wrapped[0]}}, wt)
		return Iface{T: types.NewPointer(wt), V: Ptr{Obj: obj}}
	default:
		wt := ex.eng.LookupType("fmt", "wrapErrors")
		arr := &ArrayV{Elems: make([]Value, len(wrapped))}
		for i, w := range wrapped {
			arr.Elems[i] = w
		}
		sl := SliceV{Arr: ex.newObj(arr, nil), Len: len(wrapped), Cap: len(wrapped)}
		obj := ex.newObj(&StructV{Fields: []Value{msg, sl}}, wt)
		return Iface{T: types.NewPointer(wt), V: Ptr{Obj: obj}}
	}
}

// byteVectorIndex: first position of the one-byte literal sep in the byte vector s, forking on the symbolic
// bytes only. ok=false if s is not a byte vector with a symbolic byte or sep is not a one-byte literal.
func (ex *Exec) byteVectorIndex(s, sep *Term) (k int, found bool, ok bool) {
	if !sep.IsLit() || len(sep.S) != 1 || s.IsLit() {
		return 0, false, false
	}
	bs, isVec := seqBytes(s)
	if !isVec {
		return 0, false, false
	}
	c := ByteLit(sep.S[0])
	for i, b := range bs {
		if b.IsLit() {
			if byte(b.I.Int64()) == sep.S[0] {
				return i, true, true
			}
			continue
		}
		if ex.Branch(Eq(b, c)) {
			return i, true, true
		}
	}
	return 0, false, true
}
