package main

// net/http, net/url (UF level), gorilla-style schema codec, securecookie, oauth2 models.

import (
	"golang.org/x/tools/go/ssa"
)

const schemaPkg = "github.com/zitadel/schema"

func init() {
	reg(schemaPkg+".NewEncoder", func(ex *Exec, fn *ssa.Function, a []Value) Value {
		return Ptr{Obj: ex.newObj(ex.newOpaque("schema.enc"), nil)}
	})
	reg(schemaPkg+".NewDecoder", func(ex *Exec, fn *ssa.Function, a []Value) Value {
		return Ptr{Obj: ex.newObj(ex.newOpaque("schema.dec"), nil)}
	})
	for _, m := range []string{"RegisterEncoder", "SetAliasTag"} {
		reg("(*"+schemaPkg+".Encoder)."+m, func(ex *Exec, fn *ssa.Function, a []Value) Value { return nil })
	}
	for _, m := range []string{"IgnoreUnknownKeys", "SetAliasTag", "ZeroEmpty", "RegisterConverter"} {
		reg("(*"+schemaPkg+".Decoder)."+m, func(ex *Exec, fn *ssa.Function, a []Value) Value { return nil })
	}
}
