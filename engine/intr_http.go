package main

// net/http, net/url (UF level), gorilla-style schema codec, securecookie, oauth2 models.

import (
	"net/url"
	"strings"
	"go/types"

	"golang.org/x/tools/go/ssa"
)

const schemaPkg = "github.com/zitadel/schema"

func init() {
	reg(schemaPkg+".NewEncoder", func(ex *Exec, fn *ssa.Function, a []Value) Value {
		return Ptr{Obj: ex.newObj(ex.newOpaque("schema.enc"), nil)}
	})
	reg(schemaPkg+".NewDecoder", func(ex *Exec, fn *ssa.Function, a []Value) Value {
		return Ptr{Obj: ex.newObj(ex.newOpaque("schema.dec"), nil)}
	})
	for _, m := range []string{"RegisterEncoder", "SetAliasTag"} {
		reg("(*"+schemaPkg+".Encoder)."+m, func(ex *Exec, fn *ssa.Function, a []Value) Value { return nil })
	}
	for _, m := range []string{"IgnoreUnknownKeys", "SetAliasTag", "ZeroEmpty", "RegisterConverter"} {
		reg("(*"+schemaPkg+".Decoder)."+m, func(ex *Exec, fn *ssa.Function, a []Value) Value { return nil })
	}
}

// ======================= net/http request / response model =======================

func init() {
	// --- verifnd.Request(method, target string, form url.Values, basicUser, basicPass string, hasBasic, badForm bool) *http.Request
	reg(nd("Request"), func(ex *Exec, fn *ssa.Function, a []Value) Value {
		reqT := fn.Signature.Results().At(0).Type().(*types.Pointer).Elem()
		sv := zeroValue(reqT).(*StructV)
		sv.Fields[fieldIndex(reqT, "Method")] = a[0]
		// URL
		urlPT := structOf(reqT).Field(fieldIndex(reqT, "URL")).Type()
		urlT := urlPT.(*types.Pointer).Elem()
		uv := zeroValue(urlT).(*StructV)
		uv.Fields[fieldIndex(urlT, "Path")] = a[1]
		sv.Fields[fieldIndex(reqT, "URL")] = Ptr{Obj: ex.newObj(uv, urlT)}
		ex.nextID++
		sv.Fields[fieldIndex(reqT, "Header")] = &MapV{ID: ex.nextID}
		meta := ex.newOpaque("reqmeta")
		meta.Attrs["form"] = a[2]
		meta.Attrs["basicUser"] = a[3]
		meta.Attrs["basicPass"] = a[4]
		meta.Attrs["hasBasic"] = a[5]
		meta.Attrs["badForm"] = a[6]
		sv.Fields[fieldIndex(reqT, "Body")] = Iface{T: opaqueType("reqmeta"), V: meta}
		sv.Fields[fieldIndex(reqT, "Host")] = ex.fresh("req.host", SSeq, "env")
		return Ptr{Obj: ex.newObj(sv, reqT)}
	})
	opaqueMethods["reqmeta.Close"] = func(ex *Exec, o *Opaque, a []Value) Value { return Iface{} }

	reqOf := func(ex *Exec, v Value) (*StructV, types.Type) {
		p := v.(Ptr)
		if p.Obj == nil {
			ex.goPanic("nil *http.Request")
		}
		return (*p.slot()).(*StructV), ex.eng.LookupType("net/http", "Request")
	}
	metaOf := func(ex *Exec, sv *StructV, t types.Type) *Opaque {
		if b, ok := sv.Fields[fieldIndex(t, "Body")].(Iface); ok && b.T != nil {
			if m, ok := b.V.(*Opaque); ok && m.Kind == "reqmeta" {
				return m
			}
		}
		return nil
	}
	parseForm := func(ex *Exec, v Value) Value {
		sv, t := reqOf(ex, v)
		fi := fieldIndex(t, "Form")
		if m, ok := sv.Fields[fi].(*MapV); ok && m != nil {
			return Iface{}
		}
		meta := metaOf(ex, sv, t)
		ex.nextID++
		form := &MapV{ID: ex.nextID}
		ex.nextID++
		post := &MapV{ID: ex.nextID}
		bad := false
		if meta != nil {
			if src, ok := meta.Attrs["form"].(*MapV); ok && src != nil {
				method, _ := sv.Fields[fieldIndex(t, "Method")].(*Term)
				bodyless := method != nil && method.IsLit() && (method.S == "GET" || method.S == "HEAD")
				for _, e := range src.Entries {
					k := e.K
					inQuery := bodyless
					if kt, ok := k.(*Term); ok && kt.IsLit() && strings.HasPrefix(kt.S, "?") {
						// convention of verifnd.Request: a key written "?name" travels in the URL query
						k = StrLit(kt.S[1:])
						inQuery = true
					}
					form.Entries = append(form.Entries, MapEntry{K: k, V: ex.deepCopy(e.V, map[*Object]*Object{})})
					if !inQuery {
						post.Entries = append(post.Entries, MapEntry{K: k, V: ex.deepCopy(e.V, map[*Object]*Object{})})
					}
				}
			}
			bad = ex.Branch(meta.Attrs["badForm"].(*Term))
		}
		// a malformed pair in the body: net/http keeps every well-formed pair and reports the first
		// error once (a second ParseForm finds PostForm set and returns nil)
		sv.Fields[fi] = form
		sv.Fields[fieldIndex(t, "PostForm")] = post
		if bad {
			return errorIface(ex, "http.ParseForm")
		}
		return Iface{}
	}
	reg("(*net/http.Request).ParseForm", func(ex *Exec, fn *ssa.Function, a []Value) Value { return parseForm(ex, a[0]) })
	reg("(*net/http.Request).FormValue", func(ex *Exec, fn *ssa.Function, a []Value) Value {
		parseForm(ex, a[0])
		sv, t := reqOf(ex, a[0])
		form := sv.Fields[fieldIndex(t, "Form")].(*MapV)
		if v, ok := ex.mapGet(form, a[1]); ok {
			if s, ok := v.(SliceV); ok && s.Len > 0 {
				return s.get(0)
			}
		}
		return StrLit("")
	})
	reg("(*net/http.Request).PostFormValue", intrinsics["(*net/http.Request).FormValue"])
	reg("(*net/http.Request).BasicAuth", func(ex *Exec, fn *ssa.Function, a []Value) Value {
		sv, t := reqOf(ex, a[0])
		meta := metaOf(ex, sv, t)
		if meta == nil {
			return Tuple{StrLit(""), StrLit(""), tFalse}
		}
		if ex.Branch(meta.Attrs["hasBasic"].(*Term)) {
			return Tuple{meta.Attrs["basicUser"], meta.Attrs["basicPass"], tTrue}
		}
		return Tuple{StrLit(""), StrLit(""), tFalse}
	})
	reg("(*net/http.Request).Context", func(ex *Exec, fn *ssa.Function, a []Value) Value {
		sv, t := reqOf(ex, a[0])
		c := sv.Fields[fieldIndex(t, "ctx")]
		if iv, ok := c.(Iface); ok && iv.T != nil {
			return iv
		}
		bg := ex.newCtx(nil)
		sv.Fields[fieldIndex(t, "ctx")] = bg
		return bg
	})
	reg("(*net/http.Request).WithContext", func(ex *Exec, fn *ssa.Function, a []Value) Value {
		sv, t := reqOf(ex, a[0])
		if c, ok := a[1].(Iface); !ok || c.T == nil {
			ex.goPanic("nil context")
		}
		// force the lazily created context before copying so both share its ancestry
		n := &StructV{Fields: append([]Value{}, sv.Fields...)}
		n.Fields[fieldIndex(t, "ctx")] = a[1]
		return Ptr{Obj: ex.newObj(n, t)}
	})
	reg("(*net/http.Request).Cookie", func(ex *Exec, fn *ssa.Function, a []Value) Value { return ex.requestCookie(a[0], a[1].(*Term), fn) })
	reg("(*net/http.Request).Referer", func(ex *Exec, fn *ssa.Function, a []Value) Value { return ex.fresh("req.referer", SSeq, "env") })

	// --- headers (concrete keys, canonicalised)
	canon := func(k Value) *Term {
		t := k.(*Term)
		if !t.IsLit() {
			panic(engineErr("symbolic header name"))
		}
		return StrLit(textprotoCanonical(t.S))
	}
	reg("(net/http.Header).Set", func(ex *Exec, fn *ssa.Function, a []Value) Value {
		m := a[0].(*MapV)
		if m == nil {
			ex.goPanic("assignment to entry in nil map (http.Header)")
		}
		ex.mapSet(m, canon(a[1]), ex.strSlice([]*Term{a[2].(*Term)}))
		return nil
	})
	reg("(net/http.Header).Add", func(ex *Exec, fn *ssa.Function, a []Value) Value {
		m := a[0].(*MapV)
		if m == nil {
			ex.goPanic("assignment to entry in nil map (http.Header)")
		}
		k := canon(a[1])
		if old, ok := ex.mapGet(m, k); ok {
			ex.mapSet(m, k, ex.doAppend(old, ex.strSlice([]*Term{a[2].(*Term)}), nil))
		} else {
			ex.mapSet(m, k, ex.strSlice([]*Term{a[2].(*Term)}))
		}
		return nil
	})
	reg("(net/http.Header).Get", func(ex *Exec, fn *ssa.Function, a []Value) Value {
		m := a[0].(*MapV)
		if v, ok := ex.mapGet(m, canon(a[1])); ok {
			if s := v.(SliceV); s.Len > 0 {
				return s.get(0)
			}
		}
		return StrLit("")
	})
	reg("(net/http.Header).Values", func(ex *Exec, fn *ssa.Function, a []Value) Value {
		m := a[0].(*MapV)
		if v, ok := ex.mapGet(m, canon(a[1])); ok {
			return v
		}
		return SliceV{}
	})
	reg("(net/http.Header).Del", func(ex *Exec, fn *ssa.Function, a []Value) Value {
		ex.mapDelete(a[0].(*MapV), canon(a[1]))
		return nil
	})
	reg("net/http.CanonicalHeaderKey", func(ex *Exec, fn *ssa.Function, a []Value) Value { return canon(a[0]) })
	reg("net/http.StatusText", func(ex *Exec, fn *ssa.Function, a []Value) Value {
		c := a[0].(*Term)
		if c.IsLit() {
			return StrLit(httpStatusText(int(c.I.Int64())))
		}
		return UF("http.StatusText", SSeq, c)
	})

	// --- http.Error / http.Redirect / SetCookie through the ResponseWriter's own methods
	reg("net/http.Error", func(ex *Exec, fn *ssa.Function, a []Value) Value {
		h := ex.rwHeader(a[0])
		ex.mapDelete(h, StrLit("Content-Length"))
		ex.mapSet(h, StrLit("Content-Type"), ex.strSlice([]*Term{StrLit("text/plain; charset=utf-8")}))
		ex.mapSet(h, StrLit("X-Content-Type-Options"), ex.strSlice([]*Term{StrLit("nosniff")}))
		ex.rwWriteHeader(a[0], a[2])
		ex.writeTo(a[0], SeqConcat(a[1].(*Term), StrLit("\n")))
		return nil
	})
	reg("net/http.Redirect", func(ex *Exec, fn *ssa.Function, a []Value) Value {
		h := ex.rwHeader(a[0])
		ex.mapSet(h, StrLit("Location"), ex.strSlice([]*Term{a[2].(*Term)}))
		ex.run.note("http.Redirect: Location is the url argument as given (relative-URL resolution and non-ASCII hex escaping not modelled)")
		sv, t := reqOf(ex, a[1])
		method := sv.Fields[fieldIndex(t, "Method")].(*Term)
		isGet := Or(Eq(method, StrLit("GET")), Eq(method, StrLit("HEAD")))
		if ex.Branch(isGet) {
			ex.mapSet(h, StrLit("Content-Type"), ex.strSlice([]*Term{StrLit("text/html; charset=utf-8")}))
		}
		ex.rwWriteHeader(a[0], a[3])
		return nil
	})
	reg("net/http.SetCookie", func(ex *Exec, fn *ssa.Function, a []Value) Value {
		h := ex.rwHeader(a[0])
		rec := ex.ghostList("cookies.set")
		cp := a[1].(Ptr)
		rec = append(rec, copyVal(*cp.slot()))
		ex.ghost["cookies.set"] = rec
		_ = h
		return nil
	})

	// --- reflect (only what MarshalJSONWithStatus and a few nil tests need)
	reg("reflect.ValueOf", func(ex *Exec, fn *ssa.Function, a []Value) Value {
		rv := zeroValue(fn.Signature.Results().At(0).Type()).(*StructV)
		rv.Fields[0] = a[0]
		return rv
	})
	reg("(reflect.Value).Kind", func(ex *Exec, fn *ssa.Function, a []Value) Value {
		iv, _ := a[0].(*StructV).Fields[0].(Iface)
		if iv.T == nil {
			return IntLit(0)
		}
		switch iv.T.Underlying().(type) {
		case *types.Pointer:
			return IntLit(22)
		case *types.Struct:
			return IntLit(25)
		case *types.Map:
			return IntLit(21)
		case *types.Slice:
			return IntLit(23)
		case *types.Interface:
			return IntLit(20)
		case *types.Signature:
			return IntLit(19)
		case *types.Chan:
			return IntLit(18)
		case *types.Basic:
			if iv.T.Underlying().(*types.Basic).Info()&types.IsString != 0 {
				return IntLit(24)
			}
			return IntLit(2)
		}
		return IntLit(25)
	})
	reg("(reflect.Value).IsNil", func(ex *Exec, fn *ssa.Function, a []Value) Value {
		iv, _ := a[0].(*StructV).Fields[0].(Iface)
		switch x := iv.V.(type) {
		case Ptr:
			return BoolLit(x.Obj == nil)
		case *MapV:
			return BoolLit(x == nil)
		case SliceV:
			return BoolLit(x.Arr == nil)
		case *Closure:
			return BoolLit(x == nil)
		}
		if iv.T == nil {
			ex.goPanic("reflect: call of reflect.Value.IsNil on zero Value")
		}
		ex.goPanic("reflect: call of reflect.Value.IsNil on non-nillable Value")
		return nil
	})
	reg("(reflect.Value).Interface", func(ex *Exec, fn *ssa.Function, a []Value) Value { return a[0].(*StructV).Fields[0] })

	// --- url escaping at the UF level (C11 runs the real net/url code instead)
	reg("net/url.QueryUnescape", func(ex *Exec, fn *ssa.Function, a []Value) Value {
		if ls, ok := termLitString(a[0].(*Term)); ok {
			return ex.queryUnescape(StrLit(ls)) // fully concrete: the host library decides exactly
		}
		if ex.realBody("url.QueryUnescape") {
			return ex.callBody(fn, a)
		}
		return ex.queryUnescape(a[0].(*Term))
	})
	reg("net/url.QueryEscape", func(ex *Exec, fn *ssa.Function, a []Value) Value {
		if ls, ok := termLitString(a[0].(*Term)); ok {
			return StrLit(urlQueryEscape(ls)) // fully concrete: the host library decides exactly
		}
		if ex.realBody("url.QueryEscape") {
			return ex.callBody(fn, a)
		}
		s := a[0].(*Term)
		if s.IsLit() {
			return StrLit(urlQueryEscape(s.S))
		}
		return UF("qesc", SSeq, s)
	})
	reg("net/url.PathUnescape", func(ex *Exec, fn *ssa.Function, a []Value) Value {
		if ls, ok := termLitString(a[0].(*Term)); ok {
			r, err := url.PathUnescape(ls)
			if err != nil {
				return Tuple{StrLit(""), errorIface(ex, "url.EscapeError")}
			}
			return Tuple{StrLit(r), Iface{}}
		}
		if ex.realBody("url.PathUnescape") {
			return ex.callBody(fn, a)
		}
		return ex.queryUnescape(a[0].(*Term))
	})
}

func (ex *Exec) strSlice(ts []*Term) SliceV {
	arr := &ArrayV{Elems: make([]Value, len(ts))}
	for i, t := range ts {
		arr.Elems[i] = t
	}
	return SliceV{Arr: ex.newObj(arr, nil), Len: len(ts), Cap: len(ts)}
}

func (ex *Exec) rwMethod(w Value, name string, args ...Value) Value {
	iv := w.(Iface)
	if iv.T == nil {
		ex.goPanic("nil http.ResponseWriter")
	}
	rt := ex.eng.LookupType("net/http", "ResponseWriter").Underlying().(*types.Interface)
	for i := 0; i < rt.NumMethods(); i++ {
		if rt.Method(i).Name() == name {
			return ex.invoke(iv, rt.Method(i), args)
		}
	}
	panic(engineErr("no ResponseWriter method %s", name))
}
func (ex *Exec) rwHeader(w Value) *MapV {
	m := ex.rwMethod(w, "Header").(*MapV)
	if m == nil {
		ex.goPanic("nil http.Header from ResponseWriter")
	}
	return m
}
func (ex *Exec) rwWriteHeader(w Value, code Value) { ex.rwMethod(w, "WriteHeader", code) }

func (ex *Exec) queryUnescape(s *Term) Value {
	if s.Op == "uf" && s.Name == "uf_"+mangle("qesc") {
		return Tuple{s.Args[0], Iface{}}
	}
	if s.IsLit() {
		r, err := urlQueryUnescape(s.S)
		if err != nil {
			return Tuple{StrLit(""), errorIface(ex, "url.EscapeError")}
		}
		return Tuple{StrLit(r), Iface{}}
	}
	// a literal prefix with a malformed escape decides the outcome
	if ps := seqParts(s); len(ps) > 0 && ps[0].IsLit() {
		if _, err := urlQueryUnescape(ps[0].S); err != nil && !endsWithPartialEscape(ps[0].S) {
			return Tuple{StrLit(""), errorIface(ex, "url.EscapeError")}
		}
	}
	if ex.Branch(UF("unesc.ok", SBool, s)) {
		return Tuple{UF("unesc", SSeq, s), Iface{}}
	}
	return Tuple{StrLit(""), errorIface(ex, "url.EscapeError")}
}

func (ex *Exec) requestCookie(r Value, name *Term, fn *ssa.Function) Value {
	jar, _ := ex.ghost["cookies.jar"].(*MapV)
	cpt := fn.Signature.Results().At(0).Type()
	if jar != nil {
		if v, ok := ex.mapGet(jar, name); ok {
			ct := cpt.(*types.Pointer).Elem()
			c := zeroValue(ct).(*StructV)
			c.Fields[fieldIndex(ct, "Name")] = name
			c.Fields[fieldIndex(ct, "Value")] = v
			return Tuple{Ptr{Obj: ex.newObj(c, ct)}, Iface{}}
		}
	}
	g := ex.eng.pkgs["net/http"].Var("ErrNoCookie")
	return Tuple{Ptr{}, copyVal(ex.globalObj(g).V)}
}

// ======================= schema codec (tag driven) =======================

func schemaTag(s *types.Struct, i int) (name string, omitempty bool, skip bool) {
	tag := reflectTag(s.Tag(i), "schema")
	if tag == "-" {
		return "", false, true
	}
	parts := splitComma(tag)
	name = parts[0]
	for _, p := range parts[1:] {
		if p == "omitempty" {
			omitempty = true
		}
	}
	if name == "" {
		name = s.Field(i).Name()
	}
	return
}

func (ex *Exec) textUnmarshaler(t types.Type) (*ssa.Function, bool) {
	ms := ex.eng.prog.MethodSets.MethodSet(types.NewPointer(t))
	for k := 0; k < ms.Len(); k++ {
		if ms.At(k).Obj().Name() == "UnmarshalText" {
			fn := ex.eng.prog.MethodValue(ms.At(k))
			return fn, fn != nil
		}
	}
	return nil, false
}

// schemaDecodeStruct fills dst (pointer to struct) from the form; returns false on a conversion error.
func (ex *Exec) schemaDecodeStruct(dst Ptr, t types.Type, form *MapV) bool {
	st := structOf(t)
	ok := true
	for i := 0; i < st.NumFields(); i++ {
		f := st.Field(i)
		ft := f.Type()
		fp := dst.child(i)
		if f.Embedded() {
			if _, isS := ft.Underlying().(*types.Struct); isS {
				if !ex.schemaDecodeStruct(fp, ft, form) {
					ok = false
				}
				continue
			}
		}
		if !f.Exported() {
			continue
		}
		name, _, skip := schemaTag(st, i)
		if skip {
			continue
		}
		raw, present := ex.mapGet(form, StrLit(name))
		if !present {
			continue
		}
		vals := raw.(SliceV)
		if vals.Len == 0 {
			continue
		}
		if !ex.schemaSet(fp, ft, vals) {
			ok = false
		}
	}
	return ok
}

func (ex *Exec) schemaSet(fp Ptr, ft types.Type, vals SliceV) bool {
	// zitadel/schema decoder.decode: pointers are allocated as soon as the key is present
	if pt, isP := ft.Underlying().(*types.Pointer); isP {
		cur, _ := (*fp.slot()).(Ptr)
		if cur.Obj == nil {
			cur = Ptr{Obj: ex.newObj(zeroValue(pt.Elem()), pt.Elem())}
			*fp.slot() = cur
		}
		return ex.schemaSet(cur, pt.Elem(), vals)
	}
	val := StrLit("")
	if vals.Len > 0 {
		val = vals.get(vals.Len - 1).(*Term) // the last value provided
	}
	if fn, ok := ex.textUnmarshaler(ft); ok {
		// UnmarshalText is applied to whatever was sent, the empty string included
		r := ex.callFunction(fn, []Value{fp, BytesV{T: val}}, nil)
		if e, ok := r.(Iface); ok && e.T != nil {
			return false
		}
		return true
	}
	switch u := ft.Underlying().(type) {
	case *types.Slice:
		// element-wise conversion; empty values are dropped
		if eb, ok := u.Elem().Underlying().(*types.Basic); ok && eb.Info()&types.IsString != 0 {
			var ts []*Term
			for k := 0; k < vals.Len; k++ {
				v := vals.get(k).(*Term)
				if ex.Branch(Eq(v, StrLit(""))) {
					continue
				}
				ts = append(ts, v)
			}
			sl := ex.strSlice(ts)
			*fp.slot() = sl
			return true
		}
	case *types.Basic:
		if u.Info()&types.IsString != 0 {
			// an empty value leaves the field as it is; for a field that still holds "" that is the same as assigning it
			if cur, ok := (*fp.slot()).(*Term); ok && cur.IsLit() && cur.S == "" {
				*fp.slot() = val
				return true
			}
		}
		if ex.Branch(Eq(val, StrLit(""))) {
			return true
		}
		switch {
		case u.Info()&types.IsString != 0:
			*fp.slot() = val
			return true
		case u.Info()&types.IsBoolean != 0:
			if !ex.Branch(UF("parsebool.ok", SBool, val)) {
				return false
			}
			*fp.slot() = UF("parsebool", SBool, val)
			return true
		case u.Info()&types.IsInteger != 0:
			if !ex.Branch(UF("atoi.ok", SBool, val, StrLit(u.Name()))) {
				return false
			}
			n := UF("atoi", SInt, val)
			lo, hi, _ := intRange(ft)
			ex.assume(And(Ge(n, BigLit(lo)), Le(n, BigLit(hi))))
			*fp.slot() = n
			return true
		}
	}
	panic(engineErr("schema decode: unsupported field type %s", ft))
}

func (ex *Exec) schemaEncodeStruct(sv *StructV, t types.Type, dst *MapV) {
	st := structOf(t)
	for i := 0; i < st.NumFields(); i++ {
		f := st.Field(i)
		ft := f.Type()
		if f.Embedded() {
			if _, isS := ft.Underlying().(*types.Struct); isS {
				ex.schemaEncodeStruct(sv.Fields[i].(*StructV), ft, dst)
				continue
			}
		}
		if !f.Exported() {
			continue
		}
		name, omit, skip := schemaTag(st, i)
		if skip {
			continue
		}
		var out *Term
		empty := tFalse
		switch v := sv.Fields[i].(type) {
		case *Term:
			switch v.Sort {
			case SSeq:
				out, empty = v, Eq(v, StrLit(""))
			case SInt:
				if v.IsLit() {
					out = StrLit(v.I.String())
				} else {
					out = UF("itoa", SSeq, v)
				}
				empty = Eq(v, IntLit(0))
			case SBool:
				out, empty = Ite(v, StrLit("true"), StrLit("false")), Not(v)
			}
		case SliceV:
			// SpaceDelimitedArray (registered encoder) and plain []string
			ts := make([]*Term, 0, v.Len*2)
			for k := 0; k < v.Len; k++ {
				if k > 0 {
					ts = append(ts, StrLit(" "))
				}
				ts = append(ts, v.get(k).(*Term))
			}
			out, empty = SeqConcat(ts...), BoolLit(v.Len == 0)
			if !namedIs(ft, repoMod+"/pkg/oidc", "SpaceDelimitedArray") {
				if v.Len == 0 {
					continue
				}
				tt := make([]*Term, v.Len)
				for k := range tt {
					tt[k] = v.get(k).(*Term)
				}
				ex.mapSet(dst, StrLit(name), ex.strSlice(tt))
				continue
			}
		case Ptr:
			if v.Obj == nil {
				continue
			}
			panic(engineErr("schema encode: pointer field %s unsupported", f.Name()))
		default:
			continue
		}
		if out == nil {
			continue
		}
		if omit && ex.Branch(empty) {
			continue
		}
		ex.mapSet(dst, StrLit(name), ex.strSlice([]*Term{out}))
	}
}

func init() {
	reg("(*"+schemaPkg+".Decoder).Decode", func(ex *Exec, fn *ssa.Function, a []Value) Value {
		iv, ok := a[1].(Iface)
		if !ok || iv.T == nil {
			return errorIface(ex, "schema: interface must be a pointer to struct")
		}
		pt, isP := iv.T.Underlying().(*types.Pointer)
		p, _ := iv.V.(Ptr)
		if !isP || p.Obj == nil || structOf(pt.Elem()) == nil {
			return errorIface(ex, "schema: interface must be a pointer to struct")
		}
		form, _ := a[2].(*MapV)
		if !ex.schemaDecodeStruct(p, pt.Elem(), form) {
			return errorIface(ex, "schema.ConversionError")
		}
		return Iface{}
	})
	reg("(*"+schemaPkg+".Encoder).Encode", func(ex *Exec, fn *ssa.Function, a []Value) Value {
		iv, ok := a[1].(Iface)
		if !ok || iv.T == nil {
			return errorIface(ex, "schema: nil source")
		}
		dst := a[2].(*MapV)
		if dst == nil {
			ex.goPanic("assignment to entry in nil map (schema encode)")
		}
		t := iv.T
		v := iv.V
		if pt, isP := t.Underlying().(*types.Pointer); isP {
			p := v.(Ptr)
			if p.Obj == nil {
				return errorIface(ex, "schema: nil pointer source")
			}
			t, v = pt.Elem(), *p.slot()
		}
		sv, isS := v.(*StructV)
		if !isS {
			return errorIface(ex, "schema: interface must be a struct")
		}
		ex.schemaEncodeStruct(sv, t, dst)
		return Iface{}
	})
}

// termLitString: the Go string of a term all of whose bytes are concrete.
func termLitString(t *Term) (string, bool) {
	if t.IsLit() {
		return t.S, true
	}
	bs, ok := seqBytes(t)
	if !ok {
		return "", false
	}
	out := make([]byte, len(bs))
	for i, b := range bs {
		if !b.IsLit() {
			return "", false
		}
		out[i] = byte(b.I.Int64())
	}
	return string(out), true
}
