package main

import (
	"fmt"
	"os"
	"runtime/debug"
	"sort"
	"strings"
	"sync"
	"time"

	"golang.org/x/tools/go/ssa"
)

type Config struct {
	MaxDecisions   int
	MaxBlockVisits int
	RangeChecks    bool
	CheckBoth      bool
	Workers        int
	Tier           string
	Seed           int
	QueryTimeoutMs int
	MaxSplit       int
	MaxJSONSlice   int
	MaxPaths       int
	Solver         SolverKind
	Concurrent     bool
	SolverLog      string
}

type ChoiceRec struct {
	Tag string
	V   int
}

type Violation struct {
	Harness   string
	Class     string
	Label     string
	Site      string
	Model     map[string]string
	Choices   []ChoiceRec
	Decisions []int
	Count     int
	Stack     string
	Alts      []AltModel // further models of the same violated obligation from other paths
	UF        int        // uninterpreted semantic library functions on the path of Model
}

type AltModel struct {
	Model   map[string]string
	Choices []ChoiceRec
	UF      int
}

func (v *Violation) Key() string { return v.Class + "|" + v.Label + "|" + v.Site }

type CoverInfo struct {
	Model   map[string]string
	Choices []ChoiceRec
}

type Witness struct {
	Model     map[string]string
	Choices   []ChoiceRec
	Covers    []string
	Decisions []int
}

type Run struct {
	cfg     Config
	eng     *Engine
	harness string
	entry   *ssa.Function

	mu     sync.Mutex
	cond   *sync.Cond
	work   [][]int
	active int
	abort  bool

	paths        int
	pathEnds     map[string]int
	steps        int64
	feasQ, oblQ  int
	qUnknown     int
	solverTime   time.Duration
	obl          map[string]map[string]int // class -> status -> count
	oblSites     map[string]bool
	violations   map[string]*Violation
	inconcl      []string
	covers       map[string]*CoverInfo
	notes        map[string]bool
	funcs        map[*ssa.Function]bool
	intrUsed     map[string]bool
	witnesses    []Witness
	engineErrors []string
	schedPrefixes int
	diverged int
	witLabel map[string]int
	params  map[string]int
	spec    HarnessSpec
	wall    time.Duration
}

func NewRun(eng *Engine, harness string, entry *ssa.Function, cfg Config) *Run {
	r := &Run{cfg: cfg, eng: eng, harness: harness, entry: entry,
		pathEnds: map[string]int{}, obl: map[string]map[string]int{}, oblSites: map[string]bool{},
		violations: map[string]*Violation{}, covers: map[string]*CoverInfo{}, notes: map[string]bool{},
		funcs: map[*ssa.Function]bool{}, intrUsed: map[string]bool{}, witLabel: map[string]int{}}
	r.cond = sync.NewCond(&r.mu)
	return r
}

func (r *Run) push(prefix []int) {
	r.mu.Lock()
	r.work = append(r.work, prefix)
	r.mu.Unlock()
	r.cond.Signal()
}

func (r *Run) pop() ([]int, bool) {
	r.mu.Lock()
	defer r.mu.Unlock()
	for {
		if r.abort {
			return nil, false
		}
		if n := len(r.work); n > 0 {
			p := r.work[n-1]
			r.work = r.work[:n-1]
			r.active++
			return p, true
		}
		if r.active == 0 {
			r.cond.Broadcast()
			return nil, false
		}
		r.cond.Wait()
	}
}

func (r *Run) done() {
	r.mu.Lock()
	r.active--
	if r.active == 0 && len(r.work) == 0 {
		r.cond.Broadcast()
	}
	r.mu.Unlock()
}

func (r *Run) addFeasQuery(res string) {
	r.mu.Lock()
	r.feasQ++
	r.mu.Unlock()
}
func (r *Run) addOblQuery(res string) {
	r.mu.Lock()
	r.oblQ++
	if res == "unknown" {
		r.qUnknown++
	}
	r.mu.Unlock()
}
var forkCount = map[string]int{}

func (r *Run) countFork(site string) {
	r.mu.Lock()
	forkCount[site]++
	r.mu.Unlock()
}

func printForkStats() {
	type kv struct {
		k string
		v int
	}
	var xs []kv
	for k, v := range forkCount {
		xs = append(xs, kv{k, v})
	}
	sort.Slice(xs, func(i, j int) bool { return xs[i].v > xs[j].v })
	for i, x := range xs {
		if i >= 25 {
			break
		}
		fmt.Fprintf(os.Stderr, "  forks %6d  %s\n", x.v, x.k)
	}
}

func (r *Run) note(s string) {
	r.mu.Lock()
	r.notes[s] = true
	r.mu.Unlock()
}
func (r *Run) inconclusive(kind, msg string) {
	r.mu.Lock()
	if len(r.inconcl) < 50 {
		r.inconcl = append(r.inconcl, kind+": "+msg)
	}
	r.mu.Unlock()
}
func (r *Run) covered(label string) bool {
	r.mu.Lock()
	defer r.mu.Unlock()
	return r.covers[label] != nil
}
func (r *Run) setCovered(label string, model map[string]*Term, ex *Exec) {
	r.mu.Lock()
	defer r.mu.Unlock()
	if r.covers[label] == nil {
		r.covers[label] = &CoverInfo{Model: modelStrings(model, ex), Choices: append([]ChoiceRec{}, ex.choices...)}
	}
}

func modelStrings(model map[string]*Term, ex *Exec) map[string]string {
	out := map[string]string{}
	for _, d := range ex.draws {
		if v, ok := model[d.T.String()]; ok {
			out[d.Tag] = litString(v)
		}
	}
	return out
}

func litString(v *Term) string {
	switch v.Sort {
	case SSeq:
		return "s:" + fmt.Sprintf("%x", v.S)
	case SInt:
		return "i:" + v.I.String()
	case SBV8:
		return "b:" + v.I.String()
	case SBool:
		if v.B {
			return "t"
		}
		return "f"
	}
	return "?"
}

func (r *Run) obligation(class, label, site, status string, model map[string]*Term, ex *Exec) {
	r.mu.Lock()
	defer r.mu.Unlock()
	m := r.obl[class]
	if m == nil {
		m = map[string]int{}
		r.obl[class] = m
	}
	m[status]++
	r.oblSites[class+"|"+label+"|"+site] = true
	if status == "violated" {
		key := class + "|" + label + "|" + site
		v := r.violations[key]
		if v == nil {
			v = &Violation{Harness: r.harness, Class: class, Label: label, Site: site,
				Model: modelStrings(model, ex), Choices: append([]ChoiceRec{}, ex.choices...),
				Decisions: append([]int{}, ex.trace...), Stack: ex.where(), UF: ex.ufUse}
			if debugTrace {
				v.Stack += "\n        " + strings.Join(ex.dlog, "\n        ")
			}
			r.violations[key] = v
		} else {
			// keep further models: first those from paths that left fewer semantic library functions
			// uninterpreted (a concrete candidate pool realises what a free function symbol may not), then
			// paths with a different vector of case-split choices
			am := AltModel{Model: modelStrings(model, ex), Choices: append([]ChoiceRec{}, ex.choices...), UF: ex.ufUse}
			if am.UF < v.UF {
				// promote: the more concrete model becomes the primary one
				old := AltModel{Model: v.Model, Choices: v.Choices, UF: v.UF}
				v.Model, v.Choices, v.UF = am.Model, am.Choices, am.UF
				v.Decisions = append([]int{}, ex.trace...)
				v.Stack = ex.where()
				am = old
			}
			cs := fmt.Sprint(am.Choices)
			same := 0
			for _, a := range v.Alts {
				if fmt.Sprint(a.Choices) == cs {
					same++
				}
			}
			if len(v.Alts) < 24 && (same == 0 || (same < 2 && len(v.Alts) < 8)) {
				v.Alts = append(v.Alts, am)
			} else if same == 0 {
				// full: replace the least concrete alternative if this one is more concrete
				worst := 0
				for i, a := range v.Alts {
					if a.UF > v.Alts[worst].UF {
						worst = i
					}
				}
				if am.UF < v.Alts[worst].UF {
					v.Alts[worst] = am
				}
			}
		}
		v.Count++
	}
}

// ---------- workers ----------

func (r *Run) Explore() {
	r.push([]int{})
	var wg sync.WaitGroup
	for w := 0; w < r.cfg.Workers; w++ {
		wg.Add(1)
		go func(w int) {
			defer wg.Done()
			sol, err := NewSolver(r.cfg.Solver, r.cfg.QueryTimeoutMs, r.cfg.Seed)
			if err != nil {
				r.mu.Lock()
				r.engineErrors = append(r.engineErrors, "solver start: "+err.Error())
				r.abort = true
				r.mu.Unlock()
				r.cond.Broadcast()
				return
			}
			if r.cfg.SolverLog != "" && w == 0 {
				f, _ := os.Create(r.cfg.SolverLog)
				sol.log = f
				defer f.Close()
			}
			defer func() {
				r.mu.Lock()
				r.solverTime += sol.Time
				r.mu.Unlock()
				sol.Close()
			}()
			for {
				prefix, ok := r.pop()
				if !ok {
					return
				}
				r.runPath(sol, prefix)
				r.done()
			}
		}(w)
	}
	wg.Wait()
	if forkStats {
		printForkStats()
	}
}

func (r *Run) runPath(sol *Solver, prefix []int) {
	ex := &Exec{eng: r.eng, run: r, sol: sol, prefix: prefix,
		globals: map[*ssa.Global]*Object{}, counters: map[string]int{}, fnSeen: map[*ssa.Function]bool{},
		memo: map[string]Value{}, ghost: map[string]Value{}, intrUsed: map[string]bool{}}
	sol.Push()
	reason := "ok"
	func() {
		defer func() {
			if rec := recover(); rec != nil {
				switch e := rec.(type) {
				case pathEnd:
					reason = e.reason
				case engineError:
					reason = "engine-error"
					r.mu.Lock()
					if len(r.engineErrors) < 20 {
						msg := e.msg
						if os.Getenv("VERIF_DEBUG") != "" {
							msg += "\n" + trimStack(debug.Stack())
						}
						r.engineErrors = append(r.engineErrors, msg)
					}
					r.mu.Unlock()
				default:
					reason = "engine-crash"
					r.mu.Lock()
					if len(r.engineErrors) < 20 {
						r.engineErrors = append(r.engineErrors, fmt.Sprintf("crash: %v [%s]\n%s", rec, ex.where(), trimStack(debug.Stack())))
					}
					r.mu.Unlock()
				}
			}
		}()
		if r.cfg.Concurrent {
			ex.thr = newThreads(ex)
		}
		ex.noRange = true
		for _, ini := range r.eng.initOrder(r.entry.Pkg) {
			ex.callFunction(ini, nil, nil)
		}
		ex.noRange = false
		if ex.thr != nil {
			ex.thr.runMain(ex, r.entry)
		} else {
			ex.callFunction(r.entry, nil, nil)
		}
		ex.cover("harness-end")
	}()
	if reason != "engine-error" && reason != "engine-crash" {
		func() {
			defer func() { recover() }()
			ex.flushRange()
		}()
	}
	// path witness
	var wit *Witness
	if reason == "ok" && len(prefix) <= len(ex.trace) {
		r.mu.Lock()
		need := len(r.witnesses) < 400
		for _, c := range ex.covers {
			if r.witLabel[c] < 3 {
				need = true
			}
		}
		if need {
			for _, c := range ex.covers {
				r.witLabel[c]++
			}
		}
		r.mu.Unlock()
		if need {
			res, model := sol.CheckWith(tTrue, ex.modelTerms())
			if res == "sat" {
				wit = &Witness{Model: modelStrings(model, ex), Choices: append([]ChoiceRec{}, ex.choices...), Covers: ex.covers, Decisions: append([]int{}, ex.trace...)}
			}
		}
	}
	sol.Pop()
	for sol.Depth() > 0 {
		sol.Pop()
	}
	r.mu.Lock()
	r.paths++
	if os.Getenv("VERIF_PROGRESS") != "" && r.paths%500 == 0 {
		fmt.Fprintf(os.Stderr, "  .. %s paths=%d queue=%d feasQ=%d oblQ=%d\n", r.harness, r.paths, len(r.work), r.feasQ, r.oblQ)
	}
	r.pathEnds[reason]++
	r.steps += int64(ex.steps)
	for f := range ex.fnSeen {
		r.funcs[f] = true
	}
	for k := range ex.intrUsed {
		r.intrUsed[k] = true
	}
	if wit != nil {
		r.witnesses = append(r.witnesses, *wit)
	}
	if r.cfg.MaxPaths > 0 && r.paths >= r.cfg.MaxPaths && !r.abort {
		r.abort = true
		r.inconcl = append(r.inconcl, fmt.Sprintf("unwind: path budget %d exhausted", r.cfg.MaxPaths))
		r.cond.Broadcast()
	}
	r.mu.Unlock()
}

func trimStack(b []byte) string {
	lines := strings.Split(string(b), "\n")
	var out []string
	for _, l := range lines {
		if strings.Contains(l, "verif/engine") || strings.Contains(l, "main.") {
			out = append(out, strings.TrimSpace(l))
		}
		if len(out) > 24 {
			break
		}
	}
	return strings.Join(out, "\n")
}

// initOrder: package initialisers of the repository packages the harness depends on.
func (e *Engine) initOrder(p *ssa.Package) []*ssa.Function {
	if ini := p.Func("init"); ini != nil {
		return []*ssa.Function{ini}
	}
	return nil
}

func (r *Run) sortedViolations() []*Violation {
	var vs []*Violation
	for _, v := range r.violations {
		vs = append(vs, v)
	}
	sort.Slice(vs, func(i, j int) bool { return vs[i].Key() < vs[j].Key() })
	return vs
}
