package main

// The harness API (package internal/verifnd, symbolic variant) and the carrier model
// for tokens / JSON documents.

import (
	"sync"
	"strings"
	"os"
	"fmt"
	"go/types"
	"math/big"

	"golang.org/x/tools/go/ssa"
)

type carrier struct {
	tok    *Term
	parts  [3]*Term
	claims Value      // the Go value that was marshalled (Iface)
	alg    *Term
	kid    *Term
	nsig   int
	payload *Term // bytes of the JSON payload
}

type jsonDoc struct {
	src Iface // marshalled Go value (carrier document)
}

func (ex *Exec) carrierOf(t *Term) (*carrier, bool) {
	v, ok := ex.memo["carrier:"+t.String()]
	if !ok {
		return nil, false
	}
	return v.(*carrierBox).c, true
}

type carrierBox struct{ c *carrier }
type docBox struct{ d *jsonDoc }

func (ex *Exec) registerDoc(bytes *Term, d *jsonDoc) { ex.memo["jsondoc:"+bytes.String()] = &docBox{d} }
func (ex *Exec) docOf(bytes *Term) (*jsonDoc, bool) {
	v, ok := ex.memo["jsondoc:"+bytes.String()]
	if !ok {
		return nil, false
	}
	return v.(*docBox).d, true
}

func nd(name string) string { return ndPkg + "." + name }

func tagOf(v Value) string {
	t := v.(*Term)
	if !t.IsLit() {
		panic(engineErr("verifnd tag must be a constant string"))
	}
	return t.S
}

var debugFixMap map[string]int

var debugFixOnce sync.Once

func debugFix() map[string]int {
	debugFixOnce.Do(func() {
		debugFixMap = map[string]int{}
		for _, kv := range strings.Split(os.Getenv("VERIF_FIX"), ",") {
			if i := strings.IndexByte(kv, '='); i > 0 {
				v := 0
				fmt.Sscanf(kv[i+1:], "%d", &v)
				debugFixMap[kv[:i]] = v
			}
		}
	})
	return debugFixMap
}

func init() {
	reg(nd("Bool"), func(ex *Exec, fn *ssa.Function, a []Value) Value { return ex.fresh(tagOf(a[0]), SBool, "input") })
	reg(nd("Int"), func(ex *Exec, fn *ssa.Function, a []Value) Value {
		t := ex.fresh(tagOf(a[0]), SInt, "input")
		ex.assume(And(Ge(t, a[1].(*Term)), Le(t, a[2].(*Term))))
		return t
	})
	reg(nd("Str"), func(ex *Exec, fn *ssa.Function, a []Value) Value { return ex.fresh(tagOf(a[0]), SSeq, "input") })
	reg(nd("Bytes"), func(ex *Exec, fn *ssa.Function, a []Value) Value {
		n := ex.concreteInt(a[1], "Bytes n")
		tag := tagOf(a[0])
		bs := make([]*Term, n)
		for i := range bs {
			bs[i] = ex.fresh(fmt.Sprintf("%s.b%d", tag, i), SBV8, "input")
		}
		return seqFromBytes(bs)
	})
	reg(nd("Choice"), func(ex *Exec, fn *ssa.Function, a []Value) Value {
		n := ex.concreteInt(a[1], "Choice n")
		tag := tagOf(a[0])
		var d int
		if fv, ok := debugFix()[tag]; ok {
			// debugging aid only: the run is marked inconclusive
			d = fv
			ex.run.inconclusive("debug", "VERIF_FIX restricts choice "+tag)
		} else {
			d = ex.Choose(n)
		}
		k := ex.counters["choice:"+tag]
		ex.counters["choice:"+tag] = k + 1
		name := tag
		if k > 0 {
			name = fmt.Sprintf("%s#%d", tag, k)
		}
		ex.choices = append(ex.choices, ChoiceRec{Tag: name, V: d})
		return IntLit(int64(d))
	})
	reg(nd("Assume"), func(ex *Exec, fn *ssa.Function, a []Value) Value { ex.assume(a[0].(*Term)); return nil })
	reg(nd("Assert"), func(ex *Exec, fn *ssa.Function, a []Value) Value {
		ex.Oblige("assert", tagOf(a[1]), a[0].(*Term))
		return nil
	})
	reg(nd("Cover"), func(ex *Exec, fn *ssa.Function, a []Value) Value { ex.cover(tagOf(a[0])); return nil })
	reg(nd("Note"), func(ex *Exec, fn *ssa.Function, a []Value) Value {
		if t, ok := a[0].(*Term); ok && t.IsLit() {
			ex.run.note(t.S)
		}
		return nil
	})
	reg(nd("Debugf"), func(ex *Exec, fn *ssa.Function, a []Value) Value { return nil })
	reg(nd("And"), func(ex *Exec, fn *ssa.Function, a []Value) Value { return And(a[0].(*Term), a[1].(*Term)) })
	reg(nd("Or"), func(ex *Exec, fn *ssa.Function, a []Value) Value { return Or(a[0].(*Term), a[1].(*Term)) })
	reg(nd("Not"), func(ex *Exec, fn *ssa.Function, a []Value) Value { return Not(a[0].(*Term)) })
	reg(nd("Implies"), func(ex *Exec, fn *ssa.Function, a []Value) Value { return Implies(a[0].(*Term), a[1].(*Term)) })
	reg(nd("HasPrefix"), func(ex *Exec, fn *ssa.Function, a []Value) Value { return SeqPrefixOf(a[1].(*Term), a[0].(*Term)) })
	reg(nd("Contains"), func(ex *Exec, fn *ssa.Function, a []Value) Value {
		s := a[0].(SliceV)
		var alts []*Term
		for k := 0; k < s.Len; k++ {
			alts = append(alts, Eq(s.get(k).(*Term), a[1].(*Term)))
		}
		return Or(alts...)
	})
	reg(nd("EqStrs"), func(ex *Exec, fn *ssa.Function, a []Value) Value {
		x, y := a[0].(SliceV), a[1].(SliceV)
		if x.Len != y.Len {
			return tFalse
		}
		var cs []*Term
		for k := 0; k < x.Len; k++ {
			cs = append(cs, Eq(x.get(k).(*Term), y.get(k).(*Term)))
		}
		return And(cs...)
	})
	reg(nd("IsNil"), func(ex *Exec, fn *ssa.Function, a []Value) Value {
		iv := a[0].(Iface)
		if iv.T == nil {
			return tTrue
		}
		switch x := iv.V.(type) {
		case Ptr:
			return BoolLit(x.Obj == nil)
		case *MapV:
			return BoolLit(x == nil)
		case SliceV:
			return BoolLit(x.Arr == nil)
		case *Closure:
			return BoolLit(x == nil)
		}
		return tFalse
	})
	reg(nd("Now"), func(ex *Exec, fn *ssa.Function, a []Value) Value { return ex.clockRead() })
	reg(nd("ClockReads"), func(ex *Exec, fn *ssa.Function, a []Value) Value { return IntLit(int64(ex.nowCount)) })
	reg(nd("ClockFirst"), func(ex *Exec, fn *ssa.Function, a []Value) Value {
		if ex.nowCount == 0 {
			ex.clockRead()
		}
		return ex.ghost["clock.first"]
	})
	reg(nd("ClockLast"), func(ex *Exec, fn *ssa.Function, a []Value) Value {
		if ex.nowCount == 0 {
			ex.clockRead()
		}
		return ex.lastNow
	})
	reg(nd("Ctx"), func(ex *Exec, fn *ssa.Function, a []Value) Value {
		key := fmt.Sprintf("ndctx:%d", ex.concreteInt(a[0], "Ctx i"))
		if v, ok := ex.memo[key]; ok {
			return v
		}
		c := ex.newCtx(nil)
		ex.memo[key] = c
		return c
	})
	reg(nd("Hash"), func(ex *Exec, fn *ssa.Function, a []Value) Value {
		kind := a[0].(*Term)
		half := a[2].(*Term)
		if !kind.IsLit() || !half.IsLit() {
			panic(engineErr("verifnd.Hash: kind and half must be concrete"))
		}
		sizes := map[string]int{"sha256": 32, "sha384": 48, "sha512": 64}
		n, ok := sizes[kind.S]
		if !ok {
			panic(engineErr("verifnd.Hash: unknown kind %q", kind.S))
		}
		if half.B {
			n /= 2
		}
		bs := make([]*Term, n)
		for i := range bs {
			bs[i] = &Term{Op: "uf", Sort: SBV8, Name: "uf_hashbyte", Args: []*Term{kind, a[1].(*Term), IntLit(int64(i))}}
		}
		return UF("b64enc", SSeq, seqFromBytes(bs))
	})
	reg(nd("Token"), func(ex *Exec, fn *ssa.Function, a []Value) Value {
		k := ex.counters["token"]
		ex.counters["token"]++
		base := fmt.Sprintf("tok%d", k)
		c := &carrier{claims: a[0], alg: a[1].(*Term), kid: a[2].(*Term), nsig: ex.concreteInt(a[3], "Token nsig")}
		c.tok = ex.fresh(base, SSeq, "env")
		ex.assume(Not(Eq(c.tok, StrLit(""))))
		for i := 0; i < 3; i++ {
			c.parts[i] = UF("jwtpart", SSeq, c.tok, IntLit(int64(i)))
		}
		c.payload = ex.fresh(base+".payload", SSeq, "env")
		ex.memo["b64dec:"+c.parts[1].String()] = BytesV{T: c.payload}
		if iv, ok := a[0].(Iface); ok && iv.T != nil {
			t := iv.T
			if p, ok := t.Underlying().(*types.Pointer); ok {
				t = p.Elem()
			}
			switch t.Underlying().(type) {
			case *types.Struct, *types.Map: // a JSON object
				ex.assume(And(SeqPrefixOf(StrLit("{"), c.payload), SeqSuffixOf(StrLit("}"), c.payload), Ge(SeqLen(c.payload), IntLit(2))))
				// nothing to trim from a document that starts with '{' and ends with '}'
				ex.assume(Eq(trimSpaceTerm(c.payload), c.payload))
			}
		}
		ex.memo["carrier:"+c.tok.String()] = &carrierBox{c}
		ex.registerDoc(c.payload, &jsonDoc{src: ex.snapshotIface(a[0].(Iface))})
		return c.tok
	})
	reg(nd("FrameOn"), func(ex *Exec, fn *ssa.Function, a []Value) Value { ex.ghost["frame.on"] = tTrue; return nil })
	reg(nd("FrameOff"), func(ex *Exec, fn *ssa.Function, a []Value) Value { delete(ex.ghost, "frame.on"); return nil })
	reg(nd("Label"), func(ex *Exec, fn *ssa.Function, a []Value) Value {
		ex.labelReachable(a[0], tagOf(a[1]), map[*Object]bool{})
		return nil
	})
}

// snapshotIface deep-copies the pointee so later mutation of the source does not change the document.
func (ex *Exec) snapshotIface(iv Iface) Iface {
	if p, ok := iv.V.(Ptr); ok && p.Obj != nil {
		cp := ex.newObj(ex.deepCopy(*p.slot(), map[*Object]*Object{}), p.Obj.Typ)
		return Iface{T: iv.T, V: Ptr{Obj: cp}}
	}
	return Iface{T: iv.T, V: ex.deepCopy(iv.V, map[*Object]*Object{})}
}

func (ex *Exec) deepCopy(v Value, seen map[*Object]*Object) Value {
	switch x := v.(type) {
	case *StructV:
		n := &StructV{Fields: make([]Value, len(x.Fields))}
		for i, f := range x.Fields {
			n.Fields[i] = ex.deepCopy(f, seen)
		}
		return n
	case *ArrayV:
		n := &ArrayV{Elems: make([]Value, len(x.Elems))}
		for i, f := range x.Elems {
			n.Elems[i] = ex.deepCopy(f, seen)
		}
		return n
	case Ptr:
		if x.Obj == nil {
			return x
		}
		no, ok := seen[x.Obj]
		if !ok {
			no = ex.newObj(nil, x.Obj.Typ)
			seen[x.Obj] = no
			no.V = ex.deepCopy(x.Obj.V, seen)
		}
		return Ptr{Obj: no, Path: x.Path}
	case SliceV:
		if x.Arr == nil {
			return x
		}
		no, ok := seen[x.Arr]
		if !ok {
			no = ex.newObj(nil, nil)
			seen[x.Arr] = no
			no.V = ex.deepCopy(x.Arr.V, seen)
		}
		return SliceV{Arr: no, Off: x.Off, Len: x.Len, Cap: x.Cap}
	case *MapV:
		if x == nil {
			return x
		}
		ex.nextID++
		n := &MapV{ID: ex.nextID}
		for _, e := range x.Entries {
			n.Entries = append(n.Entries, MapEntry{K: e.K, V: ex.deepCopy(e.V, seen)})
		}
		return n
	case Iface:
		return Iface{T: x.T, V: ex.deepCopy(x.V, seen)}
	}
	return v
}

func (ex *Exec) labelReachable(v Value, label string, seen map[*Object]bool) {
	switch x := v.(type) {
	case Iface:
		ex.labelReachable(x.V, label, seen)
	case Ptr:
		if x.Obj != nil && !seen[x.Obj] {
			seen[x.Obj] = true
			if x.Obj.Label == "" {
				x.Obj.Label = label
			}
			ex.labelReachable(x.Obj.V, label, seen)
		}
	case SliceV:
		if x.Arr != nil && !seen[x.Arr] {
			seen[x.Arr] = true
			if x.Arr.Label == "" {
				x.Arr.Label = label
			}
			ex.labelReachable(x.Arr.V, label, seen)
		}
	case *StructV:
		for _, f := range x.Fields {
			ex.labelReachable(f, label, seen)
		}
	case *ArrayV:
		for _, f := range x.Elems {
			ex.labelReachable(f, label, seen)
		}
	case *MapV:
		if x != nil {
			if x.Label == "" {
				x.Label = label
			}
			for _, e := range x.Entries {
				ex.labelReachable(e.V, label, seen)
			}
		}
	case *Closure:
		if x != nil {
			for _, b := range x.Binds {
				ex.labelReachable(b, label, seen)
			}
		}
	}
}

// cover: reachability witness (vacuity guard).
func (ex *Exec) cover(label string) {
	ex.covers = append(ex.covers, label)
	if ex.run.covered(label) {
		return
	}
	r, model := ex.sol.CheckWith(tTrue, ex.modelTerms())
	ex.run.addFeasQuery(r)
	if r == "sat" {
		ex.run.setCovered(label, model, ex)
	}
}

var _ = big.NewInt
var _ = types.Identical

func init() {
	reg(nd("Param"), func(ex *Exec, fn *ssa.Function, a []Value) Value {
		if v, ok := ex.run.params[tagOf(a[0])]; ok {
			return IntLit(int64(v))
		}
		return a[1]
	})
}
