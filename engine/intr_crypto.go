package main

// Signing (go-jose signer → carrier token), AES sealing (pkg/crypto, summarised unless the
// harness asks for the real body), key constructors.

import (
	"fmt"
	"go/types"

	"golang.org/x/tools/go/ssa"
)

const josePkg = "github.com/go-jose/go-jose/v4"
const cryptoPkg = repoMod + "/pkg/crypto"

func (ex *Exec) realBody(name string) bool {
	for _, n := range ex.run.spec.RealBodies {
		if n == name {
			return true
		}
	}
	return false
}

func init() {
	// verifnd.KeyPair(id, alg string) (priv any, pub any): a signing key and its public half.
	reg(nd("KeyPair"), func(ex *Exec, fn *ssa.Function, a []Value) Value {
		id := a[0].(*Term)
		alg := a[1].(*Term)
		if !alg.IsLit() {
			panic(engineErr("verifnd.KeyPair: alg must be concrete"))
		}
		var privT, pubT types.Type
		switch {
		case len(alg.S) >= 2 && (alg.S[:2] == "RS" || alg.S[:2] == "PS"):
			privT = types.NewPointer(ex.eng.LookupType("crypto/rsa", "PrivateKey"))
			pubT = types.NewPointer(ex.eng.LookupType("crypto/rsa", "PublicKey"))
		case len(alg.S) >= 2 && alg.S[:2] == "ES":
			privT = types.NewPointer(ex.eng.LookupType("crypto/ecdsa", "PrivateKey"))
			pubT = types.NewPointer(ex.eng.LookupType("crypto/ecdsa", "PublicKey"))
		case alg.S == "EdDSA":
			privT = ex.eng.LookupType("crypto/ed25519", "PrivateKey")
			pubT = ex.eng.LookupType("crypto/ed25519", "PublicKey")
		default:
			panic(engineErr("verifnd.KeyPair: unsupported alg %q", alg.S))
		}
		mkKey := func(t types.Type, private bool) Value {
			o := ex.newOpaque("key")
			o.Attrs["id"] = id
			o.Attrs["private"] = BoolLit(private)
			if _, isP := t.Underlying().(*types.Pointer); isP {
				return Iface{T: t, V: Ptr{Obj: ex.newObj(o, nil)}}
			}
			return Iface{T: t, V: o}
		}
		return Tuple{mkKey(privT, true), mkKey(pubT, false)}
	})

	reg(josePkg+".NewSigner", func(ex *Exec, fn *ssa.Function, a []Value) Value {
		sk := a[0].(*StructV) // jose.SigningKey{Algorithm, Key}
		alg := sk.Fields[0].(*Term)
		key := sk.Fields[1]
		o := ex.newOpaque("signer")
		o.Attrs["alg"] = alg
		o.Attrs["kid"] = StrLit("")
		o.Attrs["keyid"] = ex.keyIdentity(key)
		if iv, ok := key.(Iface); ok && iv.T != nil {
			if p, ok := iv.V.(Ptr); ok && p.Obj != nil {
				if jwk, ok := (*p.slot()).(*StructV); ok && namedIs(iv.T.Underlying().(*types.Pointer).Elem(), josePkg, "JSONWebKey") {
					jt := iv.T.Underlying().(*types.Pointer).Elem()
					o.Attrs["kid"] = jwk.Fields[fieldIndex(jt, "KeyID")]
					inner, _ := jwk.Fields[fieldIndex(jt, "Key")].(Iface)
					if inner.T == nil {
						return Tuple{Iface{}, errorIface(ex, "jose.NewSigner: nil key")}
					}
				}
			}
		} else {
			return Tuple{Iface{}, errorIface(ex, "jose.NewSigner: nil key")}
		}
		return Tuple{Iface{T: opaqueType("signer"), V: o}, Iface{}}
	})
	reg("(*"+josePkg+".SignerOptions).WithType", func(ex *Exec, fn *ssa.Function, a []Value) Value { return a[0] })
	reg("(*"+josePkg+".SignerOptions).WithHeader", func(ex *Exec, fn *ssa.Function, a []Value) Value { return a[0] })
	opaqueMethods["signer.Sign"] = func(ex *Exec, o *Opaque, a []Value) Value {
		payload := ex.bytesTerm(a[0])
		jwsT := ex.eng.LookupType(josePkg, "JSONWebSignature")
		jws := zeroValue(jwsT).(*StructV)
		jws.Fields[fieldIndex(jwsT, "payload")] = BytesV{T: payload}
		sigT := structOf(jwsT).Field(fieldIndex(jwsT, "Signatures")).Type().Underlying().(*types.Slice).Elem()
		sg := zeroValue(sigT).(*StructV)
		hi := fieldIndex(sigT, "Header")
		hT := structOf(sigT).Field(hi).Type()
		h := sg.Fields[hi].(*StructV)
		h.Fields[fieldIndex(hT, "KeyID")] = o.Attrs["kid"]
		h.Fields[fieldIndex(hT, "Algorithm")] = o.Attrs["alg"]
		jws.Fields[fieldIndex(jwsT, "Signatures")] = SliceV{Arr: ex.newObj(&ArrayV{Elems: []Value{sg}}, nil), Len: 1, Cap: 1}
		obj := ex.newObj(jws, jwsT)
		ex.memo["jwssigner:"+payload.String()] = o
		return Tuple{Ptr{Obj: obj}, Iface{}}
	}
	reg("("+josePkg+".JSONWebSignature).CompactSerialize", func(ex *Exec, fn *ssa.Function, a []Value) Value {
		jwsT := ex.eng.LookupType(josePkg, "JSONWebSignature")
		var jws *StructV
		switch x := a[0].(type) {
		case Ptr:
			if x.Obj == nil {
				ex.goPanic("nil *JSONWebSignature")
			}
			jws = (*x.slot()).(*StructV)
		case *StructV:
			jws = x
		}
		payload := ex.bytesTerm(jws.Fields[fieldIndex(jwsT, "payload")])
		so, _ := ex.memo["jwssigner:"+payload.String()].(*Opaque)
		if so == nil {
			panic(engineErr("CompactSerialize of a JWS that was not produced by Sign"))
		}
		k := ex.counters["token"]
		ex.counters["token"]++
		c := &carrier{alg: so.Attrs["alg"].(*Term), kid: so.Attrs["kid"].(*Term), nsig: 1, payload: payload}
		c.tok = ex.fresh(fmt.Sprintf("tok%d", k), SSeq, "env")
		for i := 0; i < 3; i++ {
			c.parts[i] = UF("jwtpart", SSeq, c.tok, IntLit(int64(i)))
		}
		ex.memo["b64dec:"+c.parts[1].String()] = BytesV{T: payload}
		ex.memo["carrier:"+c.tok.String()] = &carrierBox{c}
		ex.memo["signedby:"+c.tok.String()] = so.Attrs["keyid"]
		ex.assume(Not(Eq(c.tok, StrLit(""))))
		if d, ok := ex.docOf(payload); ok {
			c.claims = d.src
		}
		return Tuple{c.tok, Iface{}}
	})

	// --- AES sealing (pkg/crypto): Decrypt(Encrypt(x,k),k) = x; anything else is an uninterpreted outcome
	reg(cryptoPkg+".EncryptAES", func(ex *Exec, fn *ssa.Function, a []Value) Value {
		if ex.realBody("crypto.EncryptAES") {
			return ex.callBody(fn, a)
		}
		k := ex.counters["aesiv"]
		ex.counters["aesiv"]++
		iv := ex.fresh(fmt.Sprintf("aes.iv%d", k), SSeq, "env")
		enc := UF("aes.enc", SSeq, a[0].(*Term), a[1].(*Term), iv)
		ex.assume(Not(Eq(enc, StrLit(""))))
		return Tuple{enc, Iface{}}
	})
	reg(cryptoPkg+".DecryptAES", func(ex *Exec, fn *ssa.Function, a []Value) Value {
		if ex.realBody("crypto.DecryptAES") {
			return ex.callBody(fn, a)
		}
		s, key := a[0].(*Term), a[1].(*Term)
		if s.Op == "uf" && s.Name == "uf_"+mangle("aes.enc") {
			if ex.Branch(Eq(s.Args[1], key)) {
				return Tuple{s.Args[0], Iface{}}
			}
		}
		if _, isJWS := ex.carrierOf(s); isJWS {
			// a compact JWS contains '.', which is outside the base64url alphabet DecryptAES decodes first
			return Tuple{StrLit(""), errorIface(ex, "aes.decrypt")}
		}
		if ex.Branch(UF("aes.ok", SBool, s, key)) {
			// (fact: a string that decrypts contains no ".": not asserted, seq.contains is too costly for the solver)
			return Tuple{UF("aes.dec", SSeq, s, key), Iface{}}
		}
		return Tuple{StrLit(""), errorIface(ex, "aes.decrypt")}
	})
}

// callBody runs the real SSA body of a function that also has an intrinsic.
func (ex *Exec) callBody(fn *ssa.Function, args []Value) Value {
	fr := &Frame{fn: fn, env: make(map[ssa.Value]Value, 32), visits: map[*ssa.BasicBlock]int{}}
	for i, p := range fn.Params {
		fr.env[p] = args[i]
	}
	ex.stack = append(ex.stack, fr)
	ex.depth++
	defer func() {
		ex.depth--
		ex.stack = ex.stack[:len(ex.stack)-1]
	}()
	ex.fnSeen[fn] = true
	return ex.runFrame(fr)
}
