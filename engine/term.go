package main

// SMT terms with constant folding. A term whose Op is a literal is "concrete";
// concrete values never reach the solver.

import (
	"fmt"
	"math/big"
	"sort"
	"strings"
)

type Sort int

const (
	SBool Sort = iota
	SInt
	SBV8
	SSeq // (Seq (_ BitVec 8)) : byte-exact Go string / []byte
	SFP  // Float64
)

func (s Sort) SMT() string {
	switch s {
	case SBool:
		return "Bool"
	case SInt:
		return "Int"
	case SBV8:
		return "(_ BitVec 8)"
	case SSeq:
		return "(Seq (_ BitVec 8))"
	case SFP:
		return "(_ FloatingPoint 11 53)"
	}
	return "?"
}

type Term struct {
	Op   string // "lit", "var", "uf", or SMT operator
	Sort Sort
	Args []*Term
	I    *big.Int // SInt / SBV8 literal
	B    bool     // SBool literal
	S    string   // SSeq literal (bytes)
	F    float64  // SFP literal
	Name string   // var / uf name (already mangled)
	str  string   // cached print
}

func (t *Term) IsLit() bool { return t.Op == "lit" }

var (
	tTrue  = &Term{Op: "lit", Sort: SBool, B: true}
	tFalse = &Term{Op: "lit", Sort: SBool, B: false}
)

func BoolLit(b bool) *Term {
	if b {
		return tTrue
	}
	return tFalse
}
func IntLit(i int64) *Term     { return &Term{Op: "lit", Sort: SInt, I: big.NewInt(i)} }
func BigLit(i *big.Int) *Term  { return &Term{Op: "lit", Sort: SInt, I: new(big.Int).Set(i)} }
func ByteLit(b byte) *Term     { return &Term{Op: "lit", Sort: SBV8, I: big.NewInt(int64(b))} }
func StrLit(s string) *Term    { return &Term{Op: "lit", Sort: SSeq, S: s} }
func FloatLit(f float64) *Term { return &Term{Op: "lit", Sort: SFP, F: f} }

func Var(name string, s Sort) *Term { return &Term{Op: "var", Sort: s, Name: mangle(name)} }

func mangle(n string) string {
	var b strings.Builder
	b.WriteString("v_")
	for _, r := range n {
		switch {
		case r >= 'a' && r <= 'z', r >= 'A' && r <= 'Z', r >= '0' && r <= '9', r == '_', r == '.', r == '!':
			b.WriteRune(r)
		default:
			fmt.Fprintf(&b, "_%x_", r)
		}
	}
	return b.String()
}

// UF application: uninterpreted function with the given result sort.
func UF(name string, res Sort, args ...*Term) *Term {
	if len(args) == 0 {
		return &Term{Op: "var", Sort: res, Name: "uf_" + mangle(name)}
	}
	return &Term{Op: "uf", Sort: res, Name: "uf_" + mangle(name), Args: args}
}

func mk(op string, s Sort, args ...*Term) *Term { return &Term{Op: op, Sort: s, Args: args} }

// ---------- Bool ----------

func Not(a *Term) *Term {
	if a.IsLit() {
		return BoolLit(!a.B)
	}
	if a.Op == "not" {
		return a.Args[0]
	}
	return mk("not", SBool, a)
}

func And(xs ...*Term) *Term {
	var out []*Term
	for _, x := range xs {
		if x.IsLit() {
			if !x.B {
				return tFalse
			}
			continue
		}
		if x.Op == "and" {
			out = append(out, x.Args...)
		} else {
			out = append(out, x)
		}
	}
	switch len(out) {
	case 0:
		return tTrue
	case 1:
		return out[0]
	}
	return mk("and", SBool, out...)
}

func Or(xs ...*Term) *Term {
	var out []*Term
	for _, x := range xs {
		if x.IsLit() {
			if x.B {
				return tTrue
			}
			continue
		}
		if x.Op == "or" {
			out = append(out, x.Args...)
		} else {
			out = append(out, x)
		}
	}
	switch len(out) {
	case 0:
		return tFalse
	case 1:
		return out[0]
	}
	return mk("or", SBool, out...)
}

func Implies(a, b *Term) *Term { return Or(Not(a), b) }

func Ite(c, a, b *Term) *Term {
	if c.IsLit() {
		if c.B {
			return a
		}
		return b
	}
	if a == b || (a.IsLit() && b.IsLit() && litEq(a, b)) {
		return a
	}
	if a.Sort == SBool {
		return And(Or(Not(c), a), Or(c, b))
	}
	return mk("ite", a.Sort, c, a, b)
}

func litEq(a, b *Term) bool {
	switch a.Sort {
	case SBool:
		return a.B == b.B
	case SInt, SBV8:
		return a.I.Cmp(b.I) == 0
	case SSeq:
		return a.S == b.S
	case SFP:
		return a.F == b.F
	}
	return false
}

func Eq(a, b *Term) *Term {
	if a.Sort != b.Sort {
		panic(fmt.Sprintf("Eq sort mismatch %v %v : %s = %s", a.Sort, b.Sort, a, b))
	}
	if a == b {
		return tTrue
	}
	if a.IsLit() && b.IsLit() {
		return BoolLit(litEq(a, b))
	}
	if a.Sort == SBool {
		if a.IsLit() {
			if a.B {
				return b
			}
			return Not(b)
		}
		if b.IsLit() {
			if b.B {
				return a
			}
			return Not(a)
		}
	}
	if a.Sort == SSeq {
		return seqEq(a, b)
	}
	if a.String() == b.String() {
		return tTrue
	}
	return mk("=", SBool, a, b)
}

// ---------- Int ----------

func intFold(op string, a, b *big.Int) *big.Int {
	r := new(big.Int)
	switch op {
	case "+":
		return r.Add(a, b)
	case "-":
		return r.Sub(a, b)
	case "*":
		return r.Mul(a, b)
	}
	panic(op)
}

func Add(a, b *Term) *Term {
	if a.IsLit() && b.IsLit() {
		return BigLit(intFold("+", a.I, b.I))
	}
	if a.IsLit() && a.I.Sign() == 0 {
		return b
	}
	if b.IsLit() && b.I.Sign() == 0 {
		return a
	}
	// (x + c1) + c2
	if b.IsLit() && a.Op == "+" && len(a.Args) == 2 && a.Args[1].IsLit() {
		return Add(a.Args[0], BigLit(intFold("+", a.Args[1].I, b.I)))
	}
	return mk("+", SInt, a, b)
}
func Sub(a, b *Term) *Term {
	if a.IsLit() && b.IsLit() {
		return BigLit(intFold("-", a.I, b.I))
	}
	if b.IsLit() && b.I.Sign() == 0 {
		return a
	}
	if b.IsLit() {
		return Add(a, BigLit(new(big.Int).Neg(b.I)))
	}
	if a.String() == b.String() {
		return IntLit(0)
	}
	return mk("-", SInt, a, b)
}
func Neg(a *Term) *Term { return Sub(IntLit(0), a) }
func Mul(a, b *Term) *Term {
	if a.IsLit() && b.IsLit() {
		return BigLit(intFold("*", a.I, b.I))
	}
	if a.IsLit() {
		a, b = b, a
	}
	if b.IsLit() {
		if b.I.Sign() == 0 {
			return IntLit(0)
		}
		if b.I.Cmp(big.NewInt(1)) == 0 {
			return a
		}
	}
	return mk("*", SInt, a, b)
}

// Go semantics: truncated division. SMT div/mod are Euclidean (floor for positive divisor).
func QuoT(a, b *Term) *Term {
	if a.IsLit() && b.IsLit() && b.I.Sign() != 0 {
		return BigLit(new(big.Int).Quo(a.I, b.I))
	}
	// trunc(a/b) = ite(a>=0, a div b, -((-a) div b)) for b>0 ; general:
	// q = a div b (euclid: a = b*q + r, 0<=r<|b|). truncated = q if r==0 or a>=0 ; else q+1 if b>0, q-1 if b<0
	q := mk("div", SInt, a, b)
	r := mk("mod", SInt, a, b)
	return Ite(Or(Ge(a, IntLit(0)), Eq(r, IntLit(0))), q, Ite(Gt(b, IntLit(0)), Add(q, IntLit(1)), Sub(q, IntLit(1))))
}
func RemT(a, b *Term) *Term {
	if a.IsLit() && b.IsLit() && b.I.Sign() != 0 {
		return BigLit(new(big.Int).Rem(a.I, b.I))
	}
	return Sub(a, Mul(QuoT(a, b), b))
}

// Euclidean div/mod by positive literal (used for wrap and shifts).
func DivE(a, b *Term) *Term {
	if a.IsLit() && b.IsLit() && b.I.Sign() > 0 {
		q, _ := new(big.Int).DivMod(a.I, b.I, new(big.Int))
		return BigLit(q)
	}
	return mk("div", SInt, a, b)
}
func ModE(a, b *Term) *Term {
	if a.IsLit() && b.IsLit() && b.I.Sign() > 0 {
		_, m := new(big.Int).DivMod(a.I, b.I, new(big.Int))
		return BigLit(m)
	}
	return mk("mod", SInt, a, b)
}

func cmpFold(op string, a, b *Term) (*Term, bool) {
	if a.IsLit() && b.IsLit() {
		c := a.I.Cmp(b.I)
		switch op {
		case "<":
			return BoolLit(c < 0), true
		case "<=":
			return BoolLit(c <= 0), true
		case ">":
			return BoolLit(c > 0), true
		case ">=":
			return BoolLit(c >= 0), true
		}
	}
	return nil, false
}
func Lt(a, b *Term) *Term {
	if r, ok := cmpFold("<", a, b); ok {
		return r
	}
	if a.Sort == SBV8 {
		return mk("bvult", SBool, a, b)
	}
	return mk("<", SBool, a, b)
}
func Le(a, b *Term) *Term {
	if r, ok := cmpFold("<=", a, b); ok {
		return r
	}
	if a.Sort == SBV8 {
		return mk("bvule", SBool, a, b)
	}
	// len(x) >= 0 style folding
	if a.IsLit() && a.I.Sign() <= 0 && b.Op == "seq.len" {
		return tTrue
	}
	return mk("<=", SBool, a, b)
}
func Gt(a, b *Term) *Term { return Lt(b, a) }
func Ge(a, b *Term) *Term { return Le(b, a) }

// ---------- BV8 ----------

func bvBin(op string, a, b *Term) *Term {
	if a.IsLit() && b.IsLit() {
		x, y := byte(a.I.Int64()), byte(b.I.Int64())
		var r byte
		switch op {
		case "bvadd":
			r = x + y
		case "bvsub":
			r = x - y
		case "bvmul":
			r = x * y
		case "bvand":
			r = x & y
		case "bvor":
			r = x | y
		case "bvxor":
			r = x ^ y
		case "bvshl":
			if y >= 8 {
				r = 0
			} else {
				r = x << y
			}
		case "bvlshr":
			if y >= 8 {
				r = 0
			} else {
				r = x >> y
			}
		case "bvudiv":
			if y == 0 {
				r = 255
			} else {
				r = x / y
			}
		case "bvurem":
			if y == 0 {
				r = x
			} else {
				r = x % y
			}
		default:
			panic(op)
		}
		return ByteLit(r)
	}
	return mk(op, SBV8, a, b)
}

func BV2Int(a *Term) *Term {
	if a.IsLit() {
		return BigLit(a.I)
	}
	if a.Op == "int2bv" {
		// only valid if arg in range; keep general
	}
	return mk("bv2nat", SInt, a)
}
func Int2BV(a *Term) *Term {
	if a.IsLit() {
		m := new(big.Int).And(a.I, big.NewInt(255))
		return ByteLit(byte(m.Int64()))
	}
	if a.Op == "bv2nat" {
		return a.Args[0]
	}
	return mk("int2bv", SBV8, a)
}

// ---------- Seq ----------
//
// Canonical form: literal, or "seq.++" over parts where each part is a literal,
// a "seq.unit" of a BV8 term, or an opaque Seq term. Adjacent literals are merged.

func seqParts(t *Term) []*Term {
	if t.Op == "seq.++" {
		return t.Args
	}
	if t.IsLit() && t.S == "" {
		return nil
	}
	return []*Term{t}
}

func SeqUnit(b *Term) *Term {
	if b.IsLit() {
		return StrLit(string([]byte{byte(b.I.Int64())}))
	}
	return mk("seq.unit", SSeq, b)
}

func SeqConcat(xs ...*Term) *Term {
	var parts []*Term
	for _, x := range xs {
		for _, p := range seqParts(x) {
			if p.IsLit() && len(parts) > 0 && parts[len(parts)-1].IsLit() {
				parts[len(parts)-1] = StrLit(parts[len(parts)-1].S + p.S)
			} else {
				parts = append(parts, p)
			}
		}
	}
	switch len(parts) {
	case 0:
		return StrLit("")
	case 1:
		return parts[0]
	}
	return mk("seq.++", SSeq, parts...)
}

// partLen returns the concrete length of a part, or -1.
func partLen(p *Term) int {
	if p.IsLit() {
		return len(p.S)
	}
	if p.Op == "seq.unit" {
		return 1
	}
	return -1
}

// SeqKnownLen returns the concrete length if every part has one.
func SeqKnownLen(t *Term) (int, bool) {
	n := 0
	for _, p := range seqParts(t) {
		l := partLen(p)
		if l < 0 {
			return 0, false
		}
		n += l
	}
	return n, true
}

func SeqLen(t *Term) *Term {
	n := 0
	var rest *Term = IntLit(0)
	for _, p := range seqParts(t) {
		if l := partLen(p); l >= 0 {
			n += l
		} else {
			rest = Add(rest, mk("seq.len", SInt, p))
		}
	}
	return Add(rest, IntLit(int64(n)))
}

// byteAt returns the i-th byte term if it lies in the fully-known prefix.
func seqByteAt(t *Term, i int) (*Term, bool) {
	for _, p := range seqParts(t) {
		l := partLen(p)
		if l < 0 {
			return nil, false
		}
		if i < l {
			if p.IsLit() {
				return ByteLit(p.S[i]), true
			}
			return p.Args[0], true
		}
		i -= l
	}
	return nil, false
}

func SeqNth(t, i *Term) *Term {
	if i.IsLit() {
		if b, ok := seqByteAt(t, int(i.I.Int64())); ok {
			return b
		}
	}
	return mk("seq.nth", SBV8, t, i)
}

// bytesOf returns the per-byte terms when the whole sequence has known length.
func seqBytes(t *Term) ([]*Term, bool) {
	var out []*Term
	for _, p := range seqParts(t) {
		switch {
		case p.IsLit():
			for i := 0; i < len(p.S); i++ {
				out = append(out, ByteLit(p.S[i]))
			}
		case p.Op == "seq.unit":
			out = append(out, p.Args[0])
		default:
			return nil, false
		}
	}
	return out, true
}

func seqFromBytes(bs []*Term) *Term {
	parts := make([]*Term, len(bs))
	for i, b := range bs {
		parts[i] = SeqUnit(b)
	}
	return SeqConcat(parts...)
}

func seqEq(a, b *Term) *Term {
	ab, aok := seqBytes(a)
	bb, bok := seqBytes(b)
	if aok && bok {
		if len(ab) != len(bb) {
			return tFalse
		}
		cs := make([]*Term, len(ab))
		for i := range ab {
			cs[i] = Eq(ab[i], bb[i])
		}
		return And(cs...)
	}
	if a.String() == b.String() {
		return tTrue
	}
	// strip common literal prefix: "x"+s == "x"+t
	return mk("=", SBool, a, b)
}

func SeqPrefixOf(pre, s *Term) *Term {
	if pre.IsLit() && pre.S == "" {
		return tTrue
	}
	pb, pok := seqBytes(pre)
	if pok {
		// compare against known prefix of s if available
		cs := []*Term{}
		all := true
		for i := range pb {
			b, ok := seqByteAt(s, i)
			if !ok {
				all = false
				break
			}
			cs = append(cs, Eq(pb[i], b))
		}
		if all {
			return And(cs...)
		}
		if n, ok := SeqKnownLen(s); ok && n < len(pb) {
			return tFalse
		}
	}
	return mk("seq.prefixof", SBool, pre, s)
}
func SeqSuffixOf(suf, s *Term) *Term {
	if suf.IsLit() && suf.S == "" {
		return tTrue
	}
	sb, ok1 := seqBytes(suf)
	tb, ok2 := seqBytes(s)
	if ok1 && ok2 {
		if len(sb) > len(tb) {
			return tFalse
		}
		cs := []*Term{}
		off := len(tb) - len(sb)
		for i := range sb {
			cs = append(cs, Eq(sb[i], tb[off+i]))
		}
		return And(cs...)
	}
	return mk("seq.suffixof", SBool, suf, s)
}
func SeqContains(s, sub *Term) *Term {
	if sub.IsLit() && sub.S == "" {
		return tTrue
	}
	if s.IsLit() && sub.IsLit() {
		return BoolLit(strings.Contains(s.S, sub.S))
	}
	sb, ok1 := seqBytes(sub)
	tb, ok2 := seqBytes(s)
	if ok1 && ok2 {
		var alts []*Term
		for off := 0; off+len(sb) <= len(tb); off++ {
			cs := []*Term{}
			for i := range sb {
				cs = append(cs, Eq(sb[i], tb[off+i]))
			}
			alts = append(alts, And(cs...))
		}
		return Or(alts...)
	}
	return mk("seq.contains", SBool, s, sub)
}
func SeqExtract(s, off, n *Term) *Term {
	if off.IsLit() && n.IsLit() {
		o, l := int(off.I.Int64()), int(n.I.Int64())
		if l == 0 {
			return StrLit("")
		}
		if bs, ok := seqBytes(s); ok && o+l <= len(bs) && o >= 0 {
			return seqFromBytes(bs[o : o+l])
		}
		// known prefix is enough
		ok := true
		var bs []*Term
		for i := o; i < o+l; i++ {
			b, k := seqByteAt(s, i)
			if !k {
				ok = false
				break
			}
			bs = append(bs, b)
		}
		if ok {
			return seqFromBytes(bs)
		}
	}
	return mk("seq.extract", SSeq, s, off, n)
}
func SeqIndexOf(s, sub *Term) *Term {
	if s.IsLit() && sub.IsLit() {
		return IntLit(int64(strings.Index(s.S, sub.S)))
	}
	return mk("seq.indexof", SInt, s, sub, IntLit(0))
}

// ---------- printing ----------

func (t *Term) String() string {
	if t.str != "" {
		return t.str
	}
	var b strings.Builder
	t.print(&b)
	t.str = b.String()
	return t.str
}

func (t *Term) print(b *strings.Builder) {
	switch t.Op {
	case "lit":
		switch t.Sort {
		case SBool:
			if t.B {
				b.WriteString("true")
			} else {
				b.WriteString("false")
			}
		case SInt:
			if t.I.Sign() < 0 {
				fmt.Fprintf(b, "(- %s)", new(big.Int).Neg(t.I).String())
			} else {
				b.WriteString(t.I.String())
			}
		case SBV8:
			fmt.Fprintf(b, "#x%02x", t.I.Int64()&255)
		case SSeq:
			switch len(t.S) {
			case 0:
				b.WriteString("(as seq.empty (Seq (_ BitVec 8)))")
			case 1:
				fmt.Fprintf(b, "(seq.unit #x%02x)", t.S[0])
			default:
				b.WriteString("(seq.++")
				for i := 0; i < len(t.S); i++ {
					fmt.Fprintf(b, " (seq.unit #x%02x)", t.S[i])
				}
				b.WriteString(")")
			}
		case SFP:
			fmt.Fprintf(b, "((_ to_fp 11 53) RNE %s)", fpDecimal(t.F))
		}
	case "var":
		b.WriteString(t.Name)
	case "uf":
		b.WriteString("(" + t.Name)
		for _, a := range t.Args {
			b.WriteString(" ")
			b.WriteString(a.String())
		}
		b.WriteString(")")
	case "int2bv":
		b.WriteString("((_ int2bv 8) " + t.Args[0].String() + ")")
	default:
		b.WriteString("(" + t.Op)
		for _, a := range t.Args {
			b.WriteString(" ")
			b.WriteString(a.String())
		}
		b.WriteString(")")
	}
}

func fpDecimal(f float64) string {
	s := big.NewFloat(f).Text('f', 40)
	if strings.HasPrefix(s, "-") {
		return "(- " + s[1:] + ")"
	}
	return s
}

// collectDecls gathers free variables and UF signatures.
type decl struct {
	name string
	args []Sort
	res  Sort
}

func collectDecls(t *Term, seen map[*Term]bool, out map[string]decl) {
	if seen[t] {
		return
	}
	seen[t] = true
	switch t.Op {
	case "var":
		out[t.Name] = decl{name: t.Name, res: t.Sort}
	case "uf":
		as := make([]Sort, len(t.Args))
		for i, a := range t.Args {
			as[i] = a.Sort
		}
		out[t.Name] = decl{name: t.Name, args: as, res: t.Sort}
	}
	for _, a := range t.Args {
		collectDecls(a, seen, out)
	}
}

func (d decl) SMT() string {
	as := make([]string, len(d.args))
	for i, a := range d.args {
		as[i] = a.SMT()
	}
	return fmt.Sprintf("(declare-fun %s (%s) %s)", d.name, strings.Join(as, " "), d.res.SMT())
}

func sortedDecls(m map[string]decl) []decl {
	ks := make([]string, 0, len(m))
	for k := range m {
		ks = append(ks, k)
	}
	sort.Strings(ks)
	out := make([]decl, len(ks))
	for i, k := range ks {
		out[i] = m[k]
	}
	return out
}
