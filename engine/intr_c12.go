package main

// C12: JSON documents with an inspectable structure (verifnd.JSONDoc), and the AES-CFB sealing of
// pkg/crypto executed from its real body over byte vectors, with the block cipher as an
// uninterpreted keystream function.

import (
	"fmt"
	"go/types"
	"math/big"

	"golang.org/x/tools/go/ssa"
)

var two53 = new(big.Int).Lsh(big.NewInt(1), 53)

// docAny: the decoded value of a document made by verifnd.JSONDoc.
func (ex *Exec) docAny(data *Term) (AnyJSON, bool) {
	v, ok := ex.memo["jsondocany:"+data.String()]
	if !ok {
		return AnyJSON{}, false
	}
	return v.(AnyJSON), true
}

func (ex *Exec) newDocAny(tag string, depth int) AnyJSON {
	aj := ex.newAnyJSON(tag, depth)
	// numbers in constructed documents are integers of magnitude below 2^53 (exactly representable)
	n := ex.fresh(tag+".int", SInt, "env")
	ex.assume(And(Ge(n, BigLit(new(big.Int).Neg(two53))), Le(n, BigLit(two53))))
	aj.F = mk("to_fp_int", SFP, n)
	return aj
}

func init() {
	reg(nd("JSONDoc"), func(ex *Exec, fn *ssa.Function, a []Value) Value {
		tag := tagOf(a[0])
		doc := ex.fresh(tag+".doc", SSeq, "env")
		ex.assume(Not(Eq(doc, StrLit(""))))
		ex.memo["jsondocany:"+doc.String()] = ex.newDocAny(tag, 0)
		return BytesV{T: doc}
	})

	// --- crypto/aes + crypto/cipher (CFB) as used by pkg/crypto
	reg("crypto/aes.NewCipher", func(ex *Exec, fn *ssa.Function, a []Value) Value {
		key := ex.bytesTerm(a[0])
		n, ok := SeqKnownLen(key)
		if !ok {
			panic(engineErr("aes.NewCipher: key of symbolic length"))
		}
		if n != 16 && n != 24 && n != 32 {
			return Tuple{Iface{}, errorIface(ex, "aes.KeySizeError")}
		}
		o := ex.newOpaque("aesblock")
		o.Attrs["key"] = key
		return Tuple{Iface{T: opaqueType("aesblock"), V: o}, Iface{}}
	})
	reg("io.ReadFull", func(ex *Exec, fn *ssa.Function, a []Value) Value {
		s, ok := a[1].(SliceV)
		if !ok {
			panic(engineErr("io.ReadFull into %T", a[1]))
		}
		if ex.Branch(ex.fresh("rand.fails", SBool, "env")) {
			return Tuple{IntLit(0), errorIface(ex, "io.ReadFull")}
		}
		for k := 0; k < s.Len; k++ {
			s.set(k, ex.fresh("rand.byte", SBV8, "env"))
		}
		return Tuple{IntLit(int64(s.Len)), Iface{}}
	})
	cfb := func(decrypt bool) Intrinsic {
		return func(ex *Exec, fn *ssa.Function, a []Value) Value {
			blk := a[0].(Iface).V.(*Opaque)
			iv := a[1].(SliceV)
			if iv.Len != 16 {
				ex.goPanic("cipher.newCFB: IV length must equal block size")
			}
			o := ex.newOpaque("cfb")
			o.Attrs["key"] = blk.Attrs["key"]
			o.Attrs["iv"] = ex.bytesTerm(iv)
			o.Attrs["decrypt"] = BoolLit(decrypt)
			o.Attrs["prev"] = StrLit("") // ciphertext consumed so far
			return Iface{T: opaqueType("cfb"), V: o}
		}
	}
	reg("crypto/cipher.NewCFBEncrypter", cfb(false))
	reg("crypto/cipher.NewCFBDecrypter", cfb(true))
	// CFB: c[i] = p[i] xor ks(key, iv, c[0..i)); the keystream byte depends only on key, iv and the
	// ciphertext before position i (block cipher uninterpreted).
	opaqueMethods["cfb.XORKeyStream"] = func(ex *Exec, o *Opaque, a []Value) Value {
		dst, src := a[0].(SliceV), a[1].(SliceV)
		if dst.Len < src.Len {
			ex.goPanic("crypto/cipher: output smaller than input")
		}
		dec := o.Attrs["decrypt"].(*Term).B
		prev := o.Attrs["prev"].(*Term)
		out := make([]*Term, src.Len)
		for i := 0; i < src.Len; i++ {
			in := src.get(i).(*Term)
			ks := &Term{Op: "uf", Sort: SBV8, Name: "uf_cfbks", Args: []*Term{o.Attrs["key"].(*Term), o.Attrs["iv"].(*Term), prev}}
			out[i] = bvBin("bvxor", in, ks)
			c := out[i]
			if dec {
				c = in
			}
			prev = SeqConcat(prev, SeqUnit(c))
		}
		if src.Len > 0 {
			ex.writeCheck(dst.Arr, "XORKeyStream")
		}
		for i, b := range out {
			dst.set(i, b)
		}
		o.Attrs["prev"] = prev
		return nil
	}
}

var _ = fmt.Sprint
var _ = types.Identical
