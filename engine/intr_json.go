package main

// encoding/json, bytes.Buffer and go-jose models.

import (
	"encoding/json"
	"fmt"
	"go/types"
	"reflect"
	"strings"

	"golang.org/x/tools/go/ssa"
)

func structOf(t types.Type) *types.Struct {
	s, _ := t.Underlying().(*types.Struct)
	return s
}

func fieldIndex(t types.Type, name string) int {
	s := structOf(t)
	for i := 0; i < s.NumFields(); i++ {
		if s.Field(i).Name() == name {
			return i
		}
	}
	panic(engineErr("no field %s in %s", name, t))
}

func jsonKey(s *types.Struct, i int) (key string, skip bool, inline bool) {
	f := s.Field(i)
	tag := reflect.StructTag(s.Tag(i)).Get("json")
	if tag == "-" {
		return "", true, false
	}
	name := strings.Split(tag, ",")[0]
	if name == "" {
		if f.Embedded() {
			ft := f.Type()
			if p, ok := ft.Underlying().(*types.Pointer); ok {
				ft = p.Elem()
			}
			if _, ok := ft.Underlying().(*types.Struct); ok {
				return "", false, true
			}
		}
		name = f.Name()
	}
	if !f.Exported() {
		return "", true, false
	}
	return name, false, false
}

type flatField struct {
	key  string
	slot *Value
	typ  types.Type
}

// flatten lists the JSON-visible fields of a struct value (embedded structs inlined).
func flatten(sv *StructV, t types.Type, out *[]flatField) {
	s := structOf(t)
	for i := 0; i < s.NumFields(); i++ {
		key, skip, inline := jsonKey(s, i)
		if skip {
			continue
		}
		if inline {
			if inner, ok := sv.Fields[i].(*StructV); ok {
				flatten(inner, s.Field(i).Type(), out)
			}
			continue
		}
		*out = append(*out, flatField{key: key, slot: &sv.Fields[i], typ: s.Field(i).Type()})
	}
}

func (ex *Exec) hasMethod(t types.Type, name string) (*ssa.Function, bool) {
	ms := ex.eng.prog.MethodSets.MethodSet(t)
	for k := 0; k < ms.Len(); k++ {
		if ms.At(k).Obj().Name() == name {
			if pk := ms.At(k).Obj().Pkg(); pk != nil && isRepoPkg(pk.Path()) {
				fn := ex.eng.prog.MethodValue(ms.At(k))
				return fn, fn != nil
			}
		}
	}
	return nil, false
}

func (ex *Exec) jsonError(kind string) Iface { return errorIface(ex, "json."+kind) }

// jsonUnmarshal models json.Unmarshal(data, target).
func (ex *Exec) jsonUnmarshal(data *Term, target Value) Value {
	iv, ok := target.(Iface)
	if !ok || iv.T == nil {
		return ex.jsonError("InvalidUnmarshal")
	}
	pt, isPtr := iv.T.Underlying().(*types.Pointer)
	p, _ := iv.V.(Ptr)
	if !isPtr || p.Obj == nil {
		return ex.jsonError("InvalidUnmarshal")
	}
	if doc, ok := ex.docOf(data); ok {
		ex.decodeCarrier(data, doc, p, pt.Elem(), true)
		return Iface{}
	}
	if jd, ok := ex.jwksOf(data); ok {
		// a JWKS document built by verifnd.JWKS: well-formed; the repository's own decoder runs on it
		if fn, custom := ex.hasMethod(types.NewPointer(pt.Elem()), "UnmarshalJSON"); custom {
			r := ex.callFunction(fn, []Value{p, BytesV{T: data}}, nil)
			if e, isErr := r.(Iface); isErr && e.T != nil {
				return e
			}
			return Iface{}
		}
		if ex.decodeJWKS(jd, p, pt.Elem()) {
			return Iface{}
		}
		panic(engineErr("json.Unmarshal of a verifnd.JWKS document into %s is not modelled", pt.Elem()))
	}
	if it, isI := pt.Elem().Underlying().(*types.Interface); isI && it.NumMethods() == 0 && data.IsLit() {
		// a concrete document decoded into `any`: decided exactly by the host library
		var probe interface{}
		if err := json.Unmarshal([]byte(data.S), &probe); err != nil {
			return ex.jsonError("Syntax")
		}
		k := ex.counters["jsonlit"]
		ex.counters["jsonlit"]++
		*p.slot() = ex.hostToAnyJSON(probe, fmt.Sprintf("jsonlit%d", k), 0)
		return Iface{}
	}
	if aj, ok := ex.docAny(data); ok {
		// a document built by verifnd.JSONDoc: well-formed, structure known
		if it, isI := pt.Elem().Underlying().(*types.Interface); isI && it.NumMethods() == 0 {
			*p.slot() = aj
			return Iface{}
		}
		if b, isB := pt.Elem().Underlying().(*types.Basic); isB && b.Info()&types.IsString != 0 {
			// encoding/json: only a JSON string (or null, which leaves the target) decodes into a Go string
			if ex.Branch(Eq(aj.Tag, IntLit(3))) {
				*p.slot() = aj.S
				return Iface{}
			}
			if ex.Branch(Eq(aj.Tag, IntLit(0))) {
				return Iface{}
			}
			return ex.jsonError("UnmarshalType")
		}
		panic(engineErr("json.Unmarshal of a verifnd.JSONDoc into %s is not modelled", pt.Elem()))
	}
	if data.IsLit() {
		// a concrete document: syntax and top-level kind are decided exactly
		var probe interface{}
		if err := json.Unmarshal([]byte(data.S), &probe); err != nil {
			return ex.jsonError("Syntax")
		}
		if _, isObj := probe.(map[string]interface{}); !isObj && probe != nil {
			et := pt.Elem()
			for {
				if pp, ok := et.Underlying().(*types.Pointer); ok {
					et = pp.Elem()
					continue
				}
				break
			}
			switch et.Underlying().(type) {
			case *types.Struct, *types.Map:
				if _, custom := ex.hasMethod(types.NewPointer(et), "UnmarshalJSON"); !custom || true {
					// encoding/json: cannot unmarshal array/string/number/bool into a struct or map; the
					// repository's custom decoders of claim structs all delegate to that rule
					return ex.jsonError("UnmarshalType")
				}
			}
		}
	}
	// arbitrary document: deterministic per (data, type)
	okT := UF("json.ok", SBool, data, StrLit(types.TypeString(pt.Elem(), nil)))
	if !ex.Branch(okT) {
		return ex.jsonError("Syntax")
	}
	k := ex.counters["jsondoc"]
	ex.counters["jsondoc"]++
	ex.decodeArbitrary(data, p, pt.Elem(), fmt.Sprintf("json%d", k), 0, true)
	return Iface{}
}

func (ex *Exec) decodeCarrier(data *Term, doc *jsonDoc, dst Ptr, dstT types.Type, top bool) {
	src := doc.src
	// JSON null
	if sp, ok := src.V.(Ptr); ok && sp.Obj == nil || src.T == nil {
		if _, isP := dstT.Underlying().(*types.Pointer); isP {
			*dst.slot() = Ptr{}
		}
		return
	}
	if pp, isP := dstT.Underlying().(*types.Pointer); isP {
		cur := (*dst.slot()).(Ptr)
		if cur.Obj == nil {
			cur = Ptr{Obj: ex.newObj(zeroValue(pp.Elem()), pp.Elem())}
			*dst.slot() = cur
		}
		ex.decodeCarrier(data, doc, cur, pp.Elem(), top)
		return
	}
	if fn, ok := ex.hasMethod(types.NewPointer(dstT), "UnmarshalJSON"); ok && top {
		r := ex.callFunction(fn, []Value{dst, BytesV{T: data}}, nil)
		if e, ok := r.(Iface); ok && e.T != nil {
			ex.run.note("carrier decode: custom UnmarshalJSON returned an error")
		}
		return
	}
	// source value and type
	var sval Value
	var st types.Type = src.T
	if sp, ok := src.V.(Ptr); ok {
		sval = *sp.slot()
		st = src.T.Underlying().(*types.Pointer).Elem()
	} else {
		sval = src.V
	}
	switch dstT.Underlying().(type) {
	case *types.Struct:
		ss, ok := sval.(*StructV)
		if !ok {
			return
		}
		ds := (*dst.slot()).(*StructV)
		var sf, df []flatField
		flatten(ss, st, &sf)
		flatten(ds, dstT, &df)
		byKey := map[string]flatField{}
		for _, f := range sf {
			if _, dup := byKey[f.key]; !dup {
				byKey[f.key] = f
			}
		}
		for _, f := range df {
			if s, ok := byKey[f.key]; ok && types.Identical(s.typ.Underlying(), f.typ.Underlying()) {
				*f.slot = ex.deepCopy(*s.slot, map[*Object]*Object{})
			}
		}
	case *types.Map:
		// custom claims only (registered keys are not materialised in the map; noted)
		ex.nextID++
		m := &MapV{ID: ex.nextID}
		if ss, ok := sval.(*StructV); ok {
			sst := structOf(st)
			for i := 0; i < sst.NumFields(); i++ {
				if sst.Field(i).Name() == "Claims" {
					if cm, ok := ss.Fields[i].(*MapV); ok && cm != nil {
						for _, e := range cm.Entries {
							m.Entries = append(m.Entries, MapEntry{K: e.K, V: ex.deepCopy(e.V, map[*Object]*Object{})})
						}
					}
				}
			}
		}
		ex.run.note("carrier decode into map[string]any: only custom claims materialised")
		*dst.slot() = m
	default:
		if types.Identical(st.Underlying(), dstT.Underlying()) {
			*dst.slot() = ex.deepCopy(sval, map[*Object]*Object{})
		}
	}
}

var jsonShapeKeys = map[string]bool{"aud": true, "scope": true, "amr": true}

func (ex *Exec) decodeArbitrary(data *Term, dst Ptr, t types.Type, tag string, depth int, top bool) {
	if pp, isP := t.Underlying().(*types.Pointer); isP {
		// JSON null leaves nil; otherwise allocate
		if top || depth <= 1 {
			isNull := false
			if top && depth == 0 {
				// the document is the JSON literal null (surrounded by JSON whitespace at most)
				isNull = ex.Branch(Eq(trimSpaceTerm(data), StrLit("null")))
			} else {
				isNull = ex.Choose(2) == 1
			}
			if isNull {
				ex.choices = append(ex.choices, ChoiceRec{Tag: tag + ".null", V: 1})
				*dst.slot() = Ptr{}
				return
			}
			ex.choices = append(ex.choices, ChoiceRec{Tag: tag + ".null", V: 0})
		} else {
			*dst.slot() = Ptr{}
			return
		}
		cur := (*dst.slot()).(Ptr)
		if cur.Obj == nil {
			cur = Ptr{Obj: ex.newObj(zeroValue(pp.Elem()), pp.Elem())}
			*dst.slot() = cur
		}
		ex.decodeArbitrary(data, cur, pp.Elem(), tag, depth, top)
		return
	}
	if fn, ok := ex.hasMethod(types.NewPointer(t), "UnmarshalJSON"); ok && top {
		r := ex.callFunction(fn, []Value{dst, BytesV{T: data}}, nil)
		_ = r
		return
	}
	*dst.slot() = ex.arbitrary(t, tag, depth, true)
}

// arbitrary: any value of a static type, as encoding/json could produce it.
func (ex *Exec) arbitrary(t types.Type, tag string, depth int, shape bool) Value {
	if isTimeType(t) {
		return TimeV{NS: ex.fresh(tag, SInt, "env")}
	}
	switch u := t.Underlying().(type) {
	case *types.Basic:
		switch {
		case u.Info()&types.IsBoolean != 0:
			return ex.fresh(tag, SBool, "env")
		case u.Info()&types.IsString != 0:
			return ex.fresh(tag, SSeq, "env")
		case u.Kind() == types.Uint8:
			return ex.fresh(tag, SBV8, "env")
		case u.Info()&types.IsInteger != 0:
			v := ex.fresh(tag, SInt, "env")
			lo, hi, _ := intRange(t)
			ex.assume(And(Ge(v, BigLit(lo)), Le(v, BigLit(hi))))
			return v
		case u.Info()&types.IsFloat != 0:
			return ex.fresh(tag, SFP, "env")
		}
	case *types.Pointer:
		if depth <= 1 && shape {
			if ex.Choose(2) == 1 {
				o := ex.newObj(ex.arbitrary(u.Elem(), tag, depth+1, false), u.Elem())
				return Ptr{Obj: o}
			}
		}
		return Ptr{}
	case *types.Slice:
		n := 0
		if shape {
			n = ex.Choose(ex.run.cfg.MaxJSONSlice + 1)
			ex.choices = append(ex.choices, ChoiceRec{Tag: tag + ".len", V: n})
		}
		if n == 0 {
			return SliceV{}
		}
		arr := &ArrayV{Elems: make([]Value, n)}
		for i := range arr.Elems {
			arr.Elems[i] = ex.arbitrary(u.Elem(), fmt.Sprintf("%s.%d", tag, i), depth+1, false)
		}
		return SliceV{Arr: ex.newObj(arr, nil), Len: n, Cap: n}
	case *types.Map:
		ex.nextID++
		return &MapV{ID: ex.nextID}
	case *types.Interface:
		return ex.newAnyJSON(tag, depth)
	case *types.Struct:
		sv := zeroValue(t).(*StructV)
		for i := 0; i < u.NumFields(); i++ {
			key, skip, inline := jsonKey(u, i)
			if skip {
				continue
			}
			if inline {
				sv.Fields[i] = ex.arbitrary(u.Field(i).Type(), tag, depth, shape)
				continue
			}
			sv.Fields[i] = ex.arbitrary(u.Field(i).Type(), tag+"."+key, depth, jsonShapeKeys[key])
		}
		return sv
	case *types.Array:
		return zeroValue(t)
	}
	return zeroValue(t)
}

// hostToAnyJSON: a concrete decoded JSON value.
func (ex *Exec) hostToAnyJSON(v interface{}, name string, depth int) AnyJSON {
	aj := AnyJSON{Name: name, Depth: depth, Tag: IntLit(0), B: tFalse, F: FloatLit(0), S: StrLit("")}
	switch x := v.(type) {
	case bool:
		aj.Tag, aj.B = IntLit(1), BoolLit(x)
	case float64:
		aj.Tag, aj.F = IntLit(2), FloatLit(x)
	case string:
		aj.Tag, aj.S = IntLit(3), StrLit(x)
	case []interface{}:
		aj.Tag = IntLit(4)
		arr := &ArrayV{Elems: make([]Value, len(x))}
		for k, e := range x {
			arr.Elems[k] = ex.hostToAnyJSON(e, fmt.Sprintf("%s.%d", name, k), depth+1)
		}
		ex.memo["anyjson.arr:"+name] = SliceV{Arr: ex.newObj(arr, nil), Len: len(x), Cap: len(x)}
	case map[string]interface{}:
		aj.Tag = IntLit(5)
	}
	return aj
}

func (ex *Exec) newAnyJSON(tag string, depth int) AnyJSON {
	tg := ex.fresh(tag+".tag", SInt, "env")
	ex.assume(And(Ge(tg, IntLit(0)), Le(tg, IntLit(5))))
	return AnyJSON{Tag: tg, Name: tag, Depth: depth,
		B: ex.fresh(tag+".bool", SBool, "env"),
		F: ex.fresh(tag+".num", SFP, "env"),
		S: ex.fresh(tag+".str", SSeq, "env")}
}

// typeAssertJSON: the dynamic type of a decoded `any` is a symbolic tag; fork over it.
func (ex *Exec) typeAssertJSON(aj AnyJSON, i *ssa.TypeAssert) Value {
	want := -1
	switch u := i.AssertedType.Underlying().(type) {
	case *types.Basic:
		switch {
		case u.Info()&types.IsBoolean != 0:
			want = 1
		case u.Kind() == types.Float64:
			want = 2
		case u.Info()&types.IsString != 0:
			want = 3
		}
	case *types.Slice:
		if _, ok := u.Elem().Underlying().(*types.Interface); ok {
			want = 4
		}
	case *types.Map:
		want = 5
	case *types.Interface:
		if u.NumMethods() == 0 {
			if i.CommaOk {
				return Tuple{aj, Not(Eq(aj.Tag, IntLit(0)))}
			}
			return aj
		}
	}
	ok := tFalse
	if want >= 0 {
		ok = Eq(aj.Tag, IntLit(int64(want)))
	}
	// named types (e.g. json.Number) never match the plain decoded kinds
	if _, named := i.AssertedType.(*types.Named); named {
		ok = tFalse
	}
	succ := ex.Branch(ok)
	var val Value
	if succ {
		switch want {
		case 1:
			val = aj.B
		case 2:
			val = aj.F
		case 3:
			val = aj.S
		case 4:
			if prev, ok := ex.memo["anyjson.arr:"+aj.Name]; ok {
				val = prev // the same decoded value asserted again: the same elements
				break
			}
			n := ex.Choose(ex.run.cfg.MaxJSONSlice + 1)
			ex.choices = append(ex.choices, ChoiceRec{Tag: aj.Name + ".len", V: n})
			arr := &ArrayV{Elems: make([]Value, n)}
			for k := range arr.Elems {
				if aj.F != nil && aj.F.Op == "to_fp_int" {
					arr.Elems[k] = ex.newDocAny(fmt.Sprintf("%s.%d", aj.Name, k), aj.Depth+1)
				} else {
					arr.Elems[k] = ex.newAnyJSON(fmt.Sprintf("%s.%d", aj.Name, k), aj.Depth+1)
				}
			}
			val = SliceV{Arr: ex.newObj(arr, nil), Len: n, Cap: n}
			ex.memo["anyjson.arr:"+aj.Name] = val
		case 5:
			ex.nextID++
			val = &MapV{ID: ex.nextID}
		}
	}
	if i.CommaOk {
		if !succ {
			return Tuple{zeroValue(i.AssertedType), tFalse}
		}
		return Tuple{val, tTrue}
	}
	if !succ {
		ex.goPanic(fmt.Sprintf("interface conversion: interface {} is not %s (decoded JSON value %s)", i.AssertedType, aj.Name))
	}
	return val
}

// jsonMarshal: bytes standing for the JSON encoding of v (carrier document).
func (ex *Exec) jsonMarshal(v Value) *Term {
	iv := v.(Iface)
	k := ex.counters["jsonenc"]
	ex.counters["jsonenc"]++
	if iv.T == nil {
		return StrLit("null")
	}
	if p, ok := iv.V.(Ptr); ok && p.Obj == nil {
		if _, custom := ex.hasMethod(iv.T, "MarshalJSON"); !custom {
			return StrLit("null")
		}
	}
	b := ex.fresh(fmt.Sprintf("jsonenc%d", k), SSeq, "env")
	// the encoding of a non-nil value is not the literal null (objects start with '{', strings with '"', ...)
	switch iv.V.(type) {
	case Ptr, *StructV, *Term:
		ex.assume(Not(Eq(trimSpaceTerm(b), StrLit("null"))))
	}
	ex.registerDoc(b, &jsonDoc{src: ex.snapshotIface(iv)})
	ex.ghost["json.last"] = iv
	return b
}

func (ex *Exec) bufField(p Ptr) *Value {
	if p.Obj == nil {
		ex.goPanic("nil *bytes.Buffer")
	}
	s := (*p.slot()).(*StructV)
	return &s.Fields[0]
}
func (ex *Exec) bufGet(p Ptr) *Term {
	switch b := (*ex.bufField(p)).(type) {
	case BytesV:
		return b.T
	case SliceV:
		return ex.bytesTerm(b)
	}
	return StrLit("")
}

func init() {
	reg("encoding/json.Unmarshal", func(ex *Exec, fn *ssa.Function, a []Value) Value {
		return ex.jsonUnmarshal(ex.bytesTerm(a[0]), a[1])
	})
	reg("encoding/json.Marshal", func(ex *Exec, fn *ssa.Function, a []Value) Value {
		return Tuple{BytesV{T: ex.jsonMarshal(a[0])}, Iface{}}
	})
	reg("encoding/json.NewEncoder", func(ex *Exec, fn *ssa.Function, a []Value) Value {
		o := ex.newOpaque("jsonenc")
		o.Attrs["w"] = a[0]
		return Ptr{Obj: ex.newObj(o, nil)}
	})
	reg("(*encoding/json.Encoder).Encode", func(ex *Exec, fn *ssa.Function, a []Value) Value {
		o := (*a[0].(Ptr).slot()).(*Opaque)
		b := ex.jsonMarshal(a[1])
		ex.writeTo(o.Attrs["w"], b)
		return Iface{}
	})
	reg("encoding/json.NewDecoder", func(ex *Exec, fn *ssa.Function, a []Value) Value {
		o := ex.newOpaque("jsondec")
		o.Attrs["r"] = a[0]
		return Ptr{Obj: ex.newObj(o, nil)}
	})
	reg("(*encoding/json.Decoder).Decode", func(ex *Exec, fn *ssa.Function, a []Value) Value {
		o := (*a[0].(Ptr).slot()).(*Opaque)
		data := ex.readAll(o.Attrs["r"])
		return ex.jsonUnmarshal(data, a[1])
	})
	reg("io.ReadAll", func(ex *Exec, fn *ssa.Function, a []Value) Value {
		return Tuple{BytesV{T: ex.readAll(a[0])}, Iface{}}
	})

	// bytes.Buffer (state kept in field 0 as BytesV)
	reg("(*bytes.Buffer).Write", func(ex *Exec, fn *ssa.Function, a []Value) Value {
		p := a[0].(Ptr)
		d := ex.bytesTerm(a[1])
		*ex.bufField(p) = BytesV{T: SeqConcat(ex.bufGet(p), d)}
		return Tuple{SeqLen(d), Iface{}}
	})
	reg("(*bytes.Buffer).WriteString", func(ex *Exec, fn *ssa.Function, a []Value) Value {
		p := a[0].(Ptr)
		d := a[1].(*Term)
		*ex.bufField(p) = BytesV{T: SeqConcat(ex.bufGet(p), d)}
		return Tuple{SeqLen(d), Iface{}}
	})
	reg("(*bytes.Buffer).Bytes", func(ex *Exec, fn *ssa.Function, a []Value) Value { return BytesV{T: ex.bufGet(a[0].(Ptr))} })
	reg("(*bytes.Buffer).String", func(ex *Exec, fn *ssa.Function, a []Value) Value { return ex.bufGet(a[0].(Ptr)) })
	reg("(*bytes.Buffer).Len", func(ex *Exec, fn *ssa.Function, a []Value) Value { return SeqLen(ex.bufGet(a[0].(Ptr))) })
	reg("(*bytes.Buffer).Reset", func(ex *Exec, fn *ssa.Function, a []Value) Value {
		*ex.bufField(a[0].(Ptr)) = BytesV{T: StrLit("")}
		return nil
	})
	reg("(*bytes.Buffer).WriteTo", func(ex *Exec, fn *ssa.Function, a []Value) Value {
		p := a[0].(Ptr)
		d := ex.bufGet(p)
		ex.writeTo(a[1], d)
		*ex.bufField(p) = BytesV{T: StrLit("")}
		return Tuple{SeqLen(d), Iface{}}
	})
	reg("bytes.NewBuffer", func(ex *Exec, fn *ssa.Function, a []Value) Value {
		bt := ex.eng.LookupType("bytes", "Buffer")
		sv := zeroValue(bt).(*StructV)
		sv.Fields[0] = BytesV{T: ex.bytesTerm(a[0])}
		return Ptr{Obj: ex.newObj(sv, bt)}
	})
	reg("bytes.NewReader", func(ex *Exec, fn *ssa.Function, a []Value) Value {
		o := ex.newOpaque("reader")
		o.Attrs["data"] = ex.bytesTerm(a[0])
		return Ptr{Obj: ex.newObj(o, nil)}
	})

	// ---------- go-jose ----------
	reg("github.com/go-jose/go-jose/v4.ParseSigned", func(ex *Exec, fn *ssa.Function, a []Value) Value {
		return ex.joseParseSigned(fn, a[0].(*Term), a[1].(SliceV))
	})
	reg("(*github.com/go-jose/go-jose/v4.JSONWebSignature).UnsafePayloadWithoutVerification", func(ex *Exec, fn *ssa.Function, a []Value) Value {
		p := a[0].(Ptr)
		if p.Obj == nil {
			ex.goPanic("nil *JSONWebSignature")
		}
		s := (*p.slot()).(*StructV)
		return s.Fields[0]
	})
	reg("(*github.com/go-jose/go-jose/v4.JSONWebSignature).Verify", func(ex *Exec, fn *ssa.Function, a []Value) Value {
		return ex.joseVerify(a[0].(Ptr), a[1])
	})
	reg("(github.com/go-jose/go-jose/v4.JSONWebSignature).Verify", func(ex *Exec, fn *ssa.Function, a []Value) Value {
		// value receiver: recover the token identity from the (payload, alg) the parser recorded
		jws := a[0].(*StructV)
		jwsT := ex.eng.LookupType("github.com/go-jose/go-jose/v4", "JSONWebSignature")
		obj := ex.newObj(jws, jwsT)
		payload := ex.bytesTerm(jws.Fields[fieldIndex(jwsT, "payload")])
		if sigs, ok := jws.Fields[fieldIndex(jwsT, "Signatures")].(SliceV); ok && sigs.Len > 0 {
			sg := sigs.get(0).(*StructV)
			sigT := structOf(jwsT).Field(fieldIndex(jwsT, "Signatures")).Type().Underlying().(*types.Slice).Elem()
			hi := fieldIndex(sigT, "Header")
			h := sg.Fields[hi].(*StructV)
			alg := h.Fields[fieldIndex(structOf(sigT).Field(hi).Type(), "Algorithm")].(*Term)
			if tok, ok := ex.memo["jwsofpayload:"+payload.String()+"|"+alg.String()]; ok {
				ex.memo[fmt.Sprintf("jwsof:%d", obj.ID)] = tok
			}
		}
		return ex.joseVerify(Ptr{Obj: obj}, a[1])
	})
}

// readAll drains an io.Reader model.
func (ex *Exec) readAll(r Value) *Term {
	switch x := r.(type) {
	case Iface:
		if x.T == nil {
			ex.goPanic("read from nil io.Reader")
		}
		return ex.readAll(x.V)
	case Ptr:
		if x.Obj == nil {
			ex.goPanic("read from nil reader")
		}
		switch o := (*x.slot()).(type) {
		case *Opaque:
			if d, ok := o.Attrs["data"]; ok {
				o.Attrs["data"] = StrLit("")
				return d.(*Term)
			}
		case *StructV: // *bytes.Buffer
			d := ex.bufGet(x)
			*ex.bufField(x) = BytesV{T: StrLit("")}
			return d
		}
	case *Opaque:
		if d, ok := x.Attrs["data"]; ok {
			x.Attrs["data"] = StrLit("")
			return d.(*Term)
		}
	}
	panic(engineErr("readAll: unsupported reader %s", showValue(r)))
}

func (ex *Exec) joseParseSigned(fn *ssa.Function, tok *Term, algs SliceV) Value {
	jwsT := fn.Signature.Results().At(0).Type().(*types.Pointer).Elem()
	// remember the allow-list that was passed (C02 inspects it)
	var algTerms []*Term
	for k := 0; k < algs.Len; k++ {
		algTerms = append(algTerms, algs.get(k).(*Term))
	}
	ex.ghost["jose.algs"] = algs
	ex.ghost["jose.token"] = tok
	n, _ := ex.ghost["jose.calls"].(*Term)
	if n == nil {
		n = IntLit(0)
	}
	ex.ghost["jose.calls"] = Add(n, IntLit(1))

	unsupported := func() Value {
		o := ex.newOpaque("error")
		o.Attrs["msg"] = SeqConcat(StrLit("go-jose/go-jose: unexpected signature algorithm "), ex.fresh("josemsg", SSeq, "env"))
		return Tuple{Ptr{}, Iface{T: opaqueType("error"), V: o}}
	}
	build := func(nsig int, alg, kid, payload *Term) Value {
		jws := zeroValue(jwsT).(*StructV)
		jws.Fields[fieldIndex(jwsT, "payload")] = BytesV{T: payload}
		sigT := structOf(jwsT).Field(fieldIndex(jwsT, "Signatures")).Type().Underlying().(*types.Slice).Elem()
		arr := &ArrayV{Elems: make([]Value, nsig)}
		for k := 0; k < nsig; k++ {
			sg := zeroValue(sigT).(*StructV)
			hi := fieldIndex(sigT, "Header")
			hT := structOf(sigT).Field(hi).Type()
			h := sg.Fields[hi].(*StructV)
			h.Fields[fieldIndex(hT, "KeyID")] = kid
			h.Fields[fieldIndex(hT, "Algorithm")] = alg
			arr.Elems[k] = sg
		}
		if nsig > 0 {
			jws.Fields[fieldIndex(jwsT, "Signatures")] = SliceV{Arr: ex.newObj(arr, nil), Len: nsig, Cap: nsig}
		}
		obj := ex.newObj(jws, jwsT)
		ex.memo[fmt.Sprintf("jwsof:%d", obj.ID)] = tok
		ex.memo["jwsofpayload:"+payload.String()+"|"+alg.String()] = tok
		return Tuple{Ptr{Obj: obj}, Iface{}}
	}
	inList := func(alg *Term) *Term {
		var alts []*Term
		for _, t := range algTerms {
			alts = append(alts, Eq(alg, t))
		}
		return Or(alts...)
	}
	if c, ok := ex.carrierOf(tok); ok {
		if !ex.Branch(inList(c.alg)) {
			return unsupported()
		}
		return build(c.nsig, c.alg, c.kid, c.payload)
	}
	// arbitrary string: deterministic in the token (and the allow-list outcome)
	switch ex.Choose(4) {
	case 0:
		o := errorIface(ex, "jose.parse")
		return Tuple{Ptr{}, o}
	case 1:
		return unsupported()
	default:
		nsig := ex.trace[len(ex.trace)-1] - 1 // 1 or 2
		alg := UF("jws.alg", SSeq, tok)
		kid := UF("jws.kid", SSeq, tok)
		ex.assume(inList(alg))
		// payload: base64url-decoded middle part for compact tokens; for the JSON serialisation any bytes
		payload := UF("jws.payload", SSeq, tok)
		return build(nsig, alg, kid, payload)
	}
}

// keyIdentity: a term that identifies a verification key.
func (ex *Exec) keyIdentity(k Value) *Term {
	switch x := k.(type) {
	case Iface:
		if x.T == nil {
			return StrLit("nilkey")
		}
		return ex.keyIdentity(x.V)
	case Ptr:
		if x.Obj == nil {
			return StrLit("nilkey")
		}
		if sv, ok := (*x.slot()).(*StructV); ok {
			return ex.keyIdentity(sv)
		}
		if o, ok := (*x.slot()).(*Opaque); ok {
			return ex.keyIdentity(o)
		}
		return StrLit(fmt.Sprintf("obj%d", x.Obj.ID))
	case *StructV:
		// jose.JSONWebKey{Key, Certificates, KeyID, Algorithm, Use,...}: identity of the inner key
		if len(x.Fields) > 0 {
			if inner, ok := x.Fields[0].(Iface); ok {
				return ex.keyIdentity(inner)
			}
		}
		for _, f := range x.Fields {
			if t, ok := f.(*Term); ok && t.Sort == SSeq {
				return t
			}
		}
	case *Opaque:
		if id, ok := x.Attrs["id"]; ok {
			return id.(*Term)
		}
		return StrLit(fmt.Sprintf("opaque%d", x.ID))
	case SliceV:
		return ex.bytesTerm(x)
	case BytesV:
		return x.T
	case *Term:
		return x
	}
	return StrLit("key?")
}

func (ex *Exec) joseVerify(jp Ptr, key Value) Value {
	if jp.Obj == nil {
		ex.goPanic("nil *JSONWebSignature")
	}
	tok, _ := ex.memo[fmt.Sprintf("jwsof:%d", jp.Obj.ID)].(*Term)
	if tok == nil {
		tok = StrLit(fmt.Sprintf("jws%d", jp.Obj.ID))
	}
	kid := ex.keyIdentity(key)
	ok := UF("jws.verifies", SBool, tok, kid)
	if signer, has := ex.memo["signedby:"+tok.String()].(*Term); has {
		// a token produced by the provider's signer verifies exactly under the public half of that key
		ok = Eq(signer, kid)
	}
	jws := (*jp.slot()).(*StructV)
	rec := ex.ghostList("jose.verify")
	rec = append(rec, Tuple{tok, kid, ok})
	ex.ghost["jose.verify"] = rec
	if ex.Branch(ok) {
		return Tuple{jws.Fields[0], Iface{}}
	}
	return Tuple{SliceV{}, errorIface(ex, "jose.verify")}
}

func (ex *Exec) ghostList(k string) Tuple {
	if v, ok := ex.ghost[k]; ok {
		return v.(Tuple)
	}
	return nil
}

func trimSpaceTerm(t *Term) *Term {
	if t.IsLit() {
		return StrLit(strings.TrimSpace(t.S))
	}
	return UF("bytes.TrimSpace", SSeq, t)
}
