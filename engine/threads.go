package main

// Concurrency mode (C13): filled in by threads_impl; sequential runs have ex.thr == nil.

import (
	"go/types"

	"golang.org/x/tools/go/ssa"
)

type threads struct{}

func newThreads(ex *Exec) *threads { panic(engineErr("concurrency mode not built yet")) }
func (t *threads) maybeYield(ex *Exec)                                  {}
func (t *threads) spawn(ex *Exec, fv Value, args []Value)               {}
func (t *threads) doSelect(ex *Exec, fr *Frame, i *ssa.Select) Value    { return nil }
func (t *threads) recv(ex *Exec, ch *ChanV, commaOk bool, typ types.Type) Value { return nil }
func (t *threads) syncPoint(ex *Exec, what string)                      {}
func (t *threads) access(ex *Exec, o *Object, write bool)               {}
func (t *threads) holdsInstanceLock(ex *Exec) bool                      { return false }
func (t *threads) runMain(ex *Exec, fn *ssa.Function)                   {}
