package main

// Concurrency mode (C13). Threads are first-class in the path state: a `go` statement creates a thread
// with its own frame stack, the heap is shared. A thread runs until its next scheduling point (mutex
// lock / unlock, go, close, channel receive, select, WaitGroup wait, thread exit, the blocking
// environment call (*http.Client).Do, verifnd.Yield); at every scheduling point with more than one
// enabled thread the scheduler's choice is a decision of the path (Exec.Choose), so the traversal of
// schedules is exhaustive within the preemption bound and every counterexample carries its schedule.
// All data stay symbolic and are decided by the solver per schedule prefix.
//
// Implementation: each symbolic thread is a host goroutine; exactly one runs at a time (baton passing),
// so the executor's state needs no locking.

import (
	"fmt"
	"go/types"

	"golang.org/x/tools/go/ssa"
)

type threadKilled struct{}

type thread struct {
	id      int
	resume  chan bool // true: run, false: die
	parked  chan struct{}
	done    bool
	started bool
	enabled func() bool
	stack   []*Frame
	depth   int
	err     interface{}
	what    string
}

type threads struct {
	ts          []*thread
	cur         *thread
	locks       map[string]int // mutex identity -> owning thread id
	preemptions int
	maxPreempt  int
	points      int
	maxPoints   int
	switches    int
}

func newThreads(ex *Exec) *threads {
	t := &threads{locks: map[string]int{}, maxPreempt: 2, maxPoints: 400}
	if v, ok := ex.run.params["preemptions"]; ok {
		t.maxPreempt = v
	}
	if v, ok := ex.run.params["maxpoints"]; ok {
		t.maxPoints = v
	}
	return t
}

func (t *threads) newThread(ex *Exec, body func()) *thread {
	th := &thread{id: len(t.ts), resume: make(chan bool), parked: make(chan struct{}), enabled: func() bool { return true }}
	t.ts = append(t.ts, th)
	go func() {
		if ok := <-th.resume; !ok {
			th.done = true
			th.parked <- struct{}{}
			return
		}
		th.started = true
		defer func() {
			if r := recover(); r != nil {
				if _, killed := r.(threadKilled); !killed {
					th.err = r
				}
			}
			th.done = true
			th.parked <- struct{}{}
		}()
		body()
	}()
	return th
}

// yield parks the current thread until the scheduler resumes it; enabled tells when it may run again.
func (t *threads) yield(ex *Exec, enabled func() bool, what string) {
	th := t.cur
	th.enabled = enabled
	th.what = what
	th.stack, th.depth = ex.stack, ex.depth
	th.parked <- struct{}{}
	ok := <-th.resume
	ex.stack, ex.depth = th.stack, th.depth
	if !ok {
		panic(threadKilled{})
	}
	th.enabled = func() bool { return true }
}

func always() bool { return true }

// syncPoint: a scheduling point at which the current thread stays enabled (a possible preemption).
func (t *threads) syncPoint(ex *Exec, what string) {
	if t.cur == nil {
		return
	}
	t.yield(ex, always, what)
}

func (t *threads) maybeYield(ex *Exec) {}

func (t *threads) spawn(ex *Exec, fv Value, args []Value) {
	t.newThread(ex, func() {
		ex.stack, ex.depth = nil, 0
		ex.callValue(fv, args)
	})
	t.syncPoint(ex, "go")
}

func (t *threads) killAll() {
	for _, th := range t.ts {
		if !th.done {
			th.resume <- false
			<-th.parked
		}
	}
}

// runMain runs the harness as thread 0 and schedules until every thread has finished.
func (t *threads) runMain(ex *Exec, fn *ssa.Function) {
	main := t.newThread(ex, func() {
		ex.stack, ex.depth = nil, 0
		ex.callFunction(fn, nil, nil)
	})
	_ = main
	var last *thread
	for {
		var en []*thread
		alive := 0
		for _, th := range t.ts {
			if th.done {
				continue
			}
			alive++
			if th.enabled() {
				en = append(en, th)
			}
		}
		if alive == 0 {
			return
		}
		if len(en) == 0 {
			// no thread can move
			var who []string
			for _, th := range t.ts {
				if !th.done {
					who = append(who, fmt.Sprintf("thread %d blocked in %s", th.id, th.what))
				}
			}
			func() {
				defer func() {
					r := recover()
					t.killAll()
					if r != nil {
						panic(r)
					}
				}()
				ex.Oblige("deadlock", "some thread can always move ("+fmt.Sprint(who)+")", tFalse)
			}()
			return
		}
		t.points++
		if t.points > t.maxPoints {
			t.killAll()
			ex.run.inconclusive("unwind", fmt.Sprintf("more than %d scheduling points on one path", t.maxPoints))
			panic(pathEnd{"unwind"})
		}
		// candidates: the thread that ran last goes on without a choice once the preemption budget is spent
		pick := en[0]
		if len(en) > 1 {
			lastEnabled := false
			for _, th := range en {
				if th == last {
					lastEnabled = true
				}
			}
			if lastEnabled && t.preemptions >= t.maxPreempt {
				pick = last
			} else {
				func() {
					defer func() {
						if r := recover(); r != nil {
							t.killAll()
							panic(r)
						}
					}()
					k := ex.Choose(len(en))
					pick = en[k]
				}()
				ex.choices = append(ex.choices, ChoiceRec{Tag: fmt.Sprintf("sched%d", t.switches), V: pick.id})
				t.switches++
				if lastEnabled && pick != last {
					t.preemptions++
				}
			}
		}
		t.cur = pick
		last = pick
		ex.stack, ex.depth = pick.stack, pick.depth
		pick.resume <- true
		<-pick.parked
		if pick.err != nil {
			err := pick.err
			t.killAll()
			panic(err)
		}
	}
}

// ---- channels

func (t *threads) chanReady(ex *Exec, ch *ChanV) bool {
	if ch == nil {
		return false
	}
	if ch.Closed {
		return true
	}
	if ch.Ctx != nil && ex.ctxCancelled(ch.Ctx) {
		return true
	}
	return false
}

func (t *threads) recv(ex *Exec, ch *ChanV, commaOk bool, typ types.Type) Value {
	if !t.chanReady(ex, ch) {
		t.yield(ex, func() bool { return t.chanReady(ex, ch) }, "channel receive")
	}
	if commaOk {
		tup := typ.(*types.Tuple)
		return Tuple{zeroValue(tup.At(0).Type()), tFalse}
	}
	return zeroValue(typ)
}

func (t *threads) doSelect(ex *Exec, fr *Frame, i *ssa.Select) Value {
	var chans []*ChanV
	for _, st := range i.States {
		if st.Dir != types.RecvOnly {
			panic(engineErr("select with a send case is not modelled (%s)", fr.fn))
		}
		ch, _ := ex.get(fr, st.Chan).(*ChanV)
		chans = append(chans, ch)
	}
	ready := func() []int {
		var r []int
		for k, ch := range chans {
			if t.chanReady(ex, ch) {
				r = append(r, k)
			}
		}
		return r
	}
	t.syncPoint(ex, "select")
	rs := ready()
	if len(rs) == 0 {
		if !i.Blocking {
			rs = nil
		} else {
			t.yield(ex, func() bool { return len(ready()) > 0 }, "select")
			rs = ready()
		}
	}
	idx := -1
	if len(rs) > 0 {
		k := 0
		if len(rs) > 1 {
			k = ex.Choose(len(rs)) // Go picks any ready case
			ex.choices = append(ex.choices, ChoiceRec{Tag: fmt.Sprintf("select%d", t.switches), V: rs[k]})
			t.switches++
		}
		idx = rs[k]
	}
	tup := i.Type().(*types.Tuple)
	out := Tuple{IntLit(int64(idx)), tFalse}
	for k := 2; k < tup.Len(); k++ {
		out = append(out, zeroValue(tup.At(k).Type()))
	}
	return out
}

func (t *threads) access(ex *Exec, o *Object, write bool) {}

func (t *threads) holdsInstanceLock(ex *Exec) bool {
	for _, owner := range t.locks {
		if t.cur != nil && owner == t.cur.id {
			return true
		}
	}
	return false
}

func lockKey(v Value) string {
	p, ok := v.(Ptr)
	if !ok || p.Obj == nil {
		return "nil"
	}
	return fmt.Sprintf("%d%v", p.Obj.ID, p.Path)
}

func init() {
	reg("(*sync.Mutex).Lock", func(ex *Exec, fn *ssa.Function, a []Value) Value {
		if ex.thr == nil {
			return nil
		}
		t := ex.thr
		key := lockKey(a[0])
		t.syncPoint(ex, "lock")
		if _, held := t.locks[key]; held {
			t.yield(ex, func() bool { _, h := t.locks[key]; return !h }, "mutex lock")
		}
		t.locks[key] = t.cur.id
		return nil
	})
	reg("(*sync.Mutex).Unlock", func(ex *Exec, fn *ssa.Function, a []Value) Value {
		if ex.thr == nil {
			return nil
		}
		t := ex.thr
		key := lockKey(a[0])
		if _, held := t.locks[key]; !held {
			ex.goPanic("sync: unlock of unlocked mutex")
		}
		delete(t.locks, key)
		t.syncPoint(ex, "unlock")
		return nil
	})
	// sync.WaitGroup: a counter kept in ghost state per object
	wgKey := func(v Value) string { return "wg:" + lockKey(v) }
	wgGet := func(ex *Exec, k string) int {
		if v, ok := ex.ghost[k]; ok {
			return int(v.(*Term).I.Int64())
		}
		return 0
	}
	reg("(*sync.WaitGroup).Add", func(ex *Exec, fn *ssa.Function, a []Value) Value {
		k := wgKey(a[0])
		ex.ghost[k] = IntLit(int64(wgGet(ex, k) + ex.concreteInt(a[1], "WaitGroup.Add")))
		return nil
	})
	reg("(*sync.WaitGroup).Done", func(ex *Exec, fn *ssa.Function, a []Value) Value {
		k := wgKey(a[0])
		n := wgGet(ex, k) - 1
		if n < 0 {
			ex.goPanic("sync: negative WaitGroup counter")
		}
		ex.ghost[k] = IntLit(int64(n))
		if ex.thr != nil {
			ex.thr.syncPoint(ex, "wg.Done")
		}
		return nil
	})
	reg("(*sync.WaitGroup).Wait", func(ex *Exec, fn *ssa.Function, a []Value) Value {
		k := wgKey(a[0])
		if wgGet(ex, k) == 0 {
			return nil
		}
		if ex.thr == nil {
			panic(engineErr("WaitGroup.Wait would block outside concurrency mode"))
		}
		ex.thr.yield(ex, func() bool { return wgGet(ex, k) == 0 }, "WaitGroup.Wait")
		return nil
	})
	// verifnd.Yield: an explicit scheduling point of the harness
	reg(nd("Yield"), func(ex *Exec, fn *ssa.Function, a []Value) Value {
		if ex.thr != nil {
			ex.thr.syncPoint(ex, "yield")
		}
		return nil
	})
	reg(nd("Settle"), func(ex *Exec, fn *ssa.Function, a []Value) Value {
		if ex.thr != nil {
			// every other thread runs until it blocks: park until no other thread is enabled
			t := ex.thr
			me := t.cur
			t.yield(ex, func() bool {
				for _, th := range t.ts {
					if th != me && !th.done && th.enabled() {
						return false
					}
				}
				return true
			}, "settle")
		}
		return nil
	})
	reg("context.WithoutCancel", func(ex *Exec, fn *ssa.Function, a []Value) Value {
		c := ex.newCtx(a[0])
		c.V.(*Opaque).Attrs["nocancel"] = tTrue
		return c
	})
}
