package main

import (
	"encoding/json"
	"flag"
	"fmt"
	"os"
	"path/filepath"
	"runtime"
	"strings"
	"time"
)

type HarnessSpec struct {
	Name       string         `json:"name"`
	Pkg        string         `json:"pkg"`   // directory relative to the repo, e.g. pkg/client/rp
	Files      []string       `json:"files"` // relative to /verif/harness
	Params     map[string]map[string]int `json:"params"` // tier -> name -> value
	Bounds     string         `json:"bounds"`
	Concurrent bool           `json:"concurrent"`
	Covers     []string       `json:"covers"` // labels that must be reachable
	NoRange    bool           `json:"no_range"`
	RealBodies []string       `json:"real_bodies"`
	Abstract   bool           `json:"abstract_inputs"`
}

type PropSpec struct {
	Property     string        `json:"property"`
	Harnesses    []HarnessSpec `json:"harnesses"`
	Assumptions  []string      `json:"assumptions"`
	OutsideClaim []string      `json:"outside_claim"`
}

var verifDir = "/verif"
var repoDir = "/repo"

func main() {
	if len(os.Args) < 2 {
		fmt.Fprintln(os.Stderr, "usage: gosmt check <Cxx> [--tier quick|thorough] | gosmt replay <Cxx> <case.json>")
		os.Exit(2)
	}
	if d := os.Getenv("VERIF_DIR"); d != "" {
		verifDir = d
	}
	if d := os.Getenv("VERIF_REPO"); d != "" {
		repoDir = d
	}
	switch os.Args[1] {
	case "check":
		os.Exit(cmdCheck(os.Args[2:]))
	case "replay":
		os.Exit(cmdReplay(os.Args[2:]))
	default:
		fmt.Fprintln(os.Stderr, "unknown command", os.Args[1])
		os.Exit(2)
	}
}

func loadSpec(id string) (*PropSpec, error) {
	b, err := os.ReadFile(filepath.Join(verifDir, "harness", id, "spec.json"))
	if err != nil {
		return nil, err
	}
	var s PropSpec
	if err := json.Unmarshal(b, &s); err != nil {
		return nil, err
	}
	return &s, nil
}

func buildOverlay(spec *PropSpec, only string, ndVariant string) (map[string][]byte, []string, error) {
	ov := map[string][]byte{}
	nd, err := os.ReadFile(filepath.Join(verifDir, "verifnd", ndVariant, "verifnd.go"))
	if err != nil {
		return nil, nil, err
	}
	ov[filepath.Join(repoDir, "internal/verifnd/verifnd.go")] = nd
	pkgs := map[string]bool{}
	for _, h := range spec.Harnesses {
		if only != "" && h.Name != only {
			continue
		}
		pkgs["./"+h.Pkg] = true
		for _, f := range h.Files {
			b, err := os.ReadFile(filepath.Join(verifDir, "harness", f))
			if err != nil {
				return nil, nil, err
			}
			name := "zz_verif_" + strings.ReplaceAll(strings.ReplaceAll(f, "/", "_"), ".go", "") + ".go"
			ov[filepath.Join(repoDir, h.Pkg, name)] = b
		}
	}
	var pats []string
	for p := range pkgs {
		pats = append(pats, p)
	}
	pats = append(pats, "./internal/verifnd")
	return ov, pats, nil
}

func cmdCheck(args []string) int {
	fs := flag.NewFlagSet("check", flag.ExitOnError)
	tier := fs.String("tier", "", "quick|thorough")
	only := fs.String("harness", "", "run only this harness")
	workers := fs.Int("workers", 0, "worker count")
	solverLog := fs.String("solverlog", "", "write worker 0's solver dialogue here")
	noReplay := fs.Bool("noreplay", false, "skip native replay (debug)")
	verbose := fs.Bool("v", false, "verbose")
	if len(args) < 1 {
		fmt.Fprintln(os.Stderr, "check: property id required")
		return 2
	}
	id := args[0]
	fs.Parse(args[1:])
	if *tier == "" {
		*tier = os.Getenv("VERIF_TIER")
	}
	if *tier == "" {
		*tier = "quick"
	}
	seed := 0
	fmt.Sscanf(os.Getenv("VERIF_SEED"), "%d", &seed)
	t0 := time.Now()
	spec, err := loadSpec(id)
	if err != nil {
		fmt.Fprintln(os.Stderr, "spec:", err)
		return 2
	}
	ov, pats, err := buildOverlay(spec, *only, "sym")
	if err != nil {
		fmt.Fprintln(os.Stderr, "overlay:", err)
		return 2
	}
	eng, err := Load(repoDir, ov, pats)
	if err != nil {
		fmt.Fprintln(os.Stderr, "load:", err)
		writeFailEvidence(id, *tier, seed, time.Since(t0), "load failed: "+err.Error())
		return 2
	}
	loadT := time.Since(t0)
	if *workers == 0 {
		*workers = runtime.NumCPU()
	}
	var runs []*Run
	for _, h := range spec.Harnesses {
		if *only != "" && h.Name != *only {
			continue
		}
		cfg := Config{MaxDecisions: 600, MaxBlockVisits: 4000, RangeChecks: !h.NoRange, Workers: *workers, Tier: *tier, Seed: seed,
			QueryTimeoutMs: 10000, MaxSplit: 4, MaxJSONSlice: 2, Solver: Z3, Concurrent: h.Concurrent, SolverLog: *solverLog}
		if sv := os.Getenv("VERIF_SOLVER"); sv != "" {
			cfg.Solver = SolverKind(sv)
		}
		if *tier == "thorough" {
			cfg.QueryTimeoutMs = 120000
			cfg.MaxJSONSlice = 3
		}
		params := map[string]int{}
		for k, v := range h.Params["quick"] {
			params[k] = v
		}
		if *tier == "thorough" {
			for k, v := range h.Params["thorough"] {
				params[k] = v
			}
		}
		if v, ok := params["MaxSplit"]; ok {
			cfg.MaxSplit = v
		}
		if v, ok := params["MaxJSONSlice"]; ok {
			cfg.MaxJSONSlice = v
		}
		if v, ok := params["MaxPaths"]; ok {
			cfg.MaxPaths = v
		}
		if v, ok := params["MaxBlockVisits"]; ok {
			cfg.MaxBlockVisits = v
		}
		if mp := os.Getenv("VERIF_MAXPATHS"); mp != "" {
			fmt.Sscanf(mp, "%d", &cfg.MaxPaths)
		}
		pkgPath := repoMod + "/" + h.Pkg
		entry := eng.Func(pkgPath, h.Name)
		if entry == nil {
			fmt.Fprintf(os.Stderr, "harness %s not found in %s\n", h.Name, pkgPath)
			return 2
		}
		r := NewRun(eng, h.Name, entry, cfg)
		r.params = params
		r.spec = h
		ht := time.Now()
		r.Explore()
		r.wall = time.Since(ht)
		if *verbose {
			r.printSummary(os.Stderr)
		}
		runs = append(runs, r)
	}
	return finish(id, spec, *tier, seed, runs, eng, loadT, t0, *noReplay)
}

func writeFailEvidence(id, tier string, seed int, d time.Duration, why string) {
	ev := map[string]interface{}{
		"property_id": id, "tier": tier, "seed": seed, "level": "other",
		"coverage": map[string]interface{}{"explanation": "check did not run to completion: " + why, "evaluations": 0, "distinct_nontrivial": 0},
		"wall_s":   d.Seconds(), "violations": 0,
	}
	b, _ := json.MarshalIndent(ev, "", " ")
	os.MkdirAll(filepath.Join(verifDir, "evidence"), 0o755)
	os.WriteFile(filepath.Join(verifDir, "evidence", id+".json"), b, 0o644)
}
