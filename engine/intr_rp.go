package main

// Relying-party side models (C17): gorilla/securecookie as an abstract MAC, request cookie jars,
// cookies set on a response, uuid, and golang.org/x/oauth2's Config.AuthCodeURL / Exchange at the
// contract level (the authorization URL is the endpoint plus the documented parameters; Exchange is
// one form POST to the token endpoint through the HTTP client found in the context).

import (
	"go/types"
	"strings"

	"golang.org/x/tools/go/ssa"
)

const scPkg = "github.com/gorilla/securecookie"
const oauth2Pkg = "golang.org/x/oauth2"

func (ex *Exec) opaqueOf(v Value, kind string) *Opaque {
	p, ok := v.(Ptr)
	if !ok || p.Obj == nil {
		ex.goPanic("nil pointer dereference (" + kind + ")")
	}
	o, ok := (*p.slot()).(*Opaque)
	if !ok || o.Kind != kind {
		panic(engineErr("expected %s object", kind))
	}
	return o
}

func init() {
	// ---- securecookie: Encode = MAC'd record (key, name, value); Decode succeeds only on a record made
	// under the same key for the same name (unforgeability assumed: no other string decodes)
	reg(scPkg+".New", func(ex *Exec, fn *ssa.Function, a []Value) Value {
		o := ex.newOpaque("securecookie")
		o.Attrs["key"] = ex.bytesTerm(a[0])
		return Ptr{Obj: ex.newObj(o, nil)}
	})
	reg("(*"+scPkg+".SecureCookie).MaxAge", func(ex *Exec, fn *ssa.Function, a []Value) Value { return a[0] })
	reg("(*"+scPkg+".SecureCookie).Encode", func(ex *Exec, fn *ssa.Function, a []Value) Value {
		o := ex.opaqueOf(a[0], "securecookie")
		iv, _ := a[2].(Iface)
		v, ok := iv.V.(*Term)
		if !ok || v.Sort != SSeq {
			panic(engineErr("securecookie.Encode: only string values are modelled"))
		}
		enc := UF("sc.enc", SSeq, o.Attrs["key"].(*Term), a[1].(*Term), v)
		ex.assume(Not(Eq(enc, StrLit(""))))
		return Tuple{enc, Iface{}}
	})
	reg("(*"+scPkg+".SecureCookie).Decode", func(ex *Exec, fn *ssa.Function, a []Value) Value {
		o := ex.opaqueOf(a[0], "securecookie")
		name, val := a[1].(*Term), a[2].(*Term)
		if val.Op == "uf" && val.Name == "uf_"+mangle("sc.enc") {
			if ex.Branch(And(Eq(val.Args[0], o.Attrs["key"].(*Term)), Eq(val.Args[1], name))) {
				dst := a[3].(Iface).V.(Ptr)
				if dst.Obj == nil {
					ex.goPanic("securecookie.Decode into nil")
				}
				*dst.slot() = val.Args[2]
				return Iface{}
			}
		}
		return errorIface(ex, "securecookie.Decode")
	})

	// ---- cookies on requests and responses
	// verifnd.WithCookie(r, name, value) *http.Request
	reg(nd("WithCookie"), func(ex *Exec, fn *ssa.Function, a []Value) Value {
		jar, _ := ex.ghost["cookies.jar"].(*MapV)
		if jar == nil {
			ex.nextID++
			jar = &MapV{ID: ex.nextID}
			ex.ghost["cookies.jar"] = jar
		}
		if _, dup := ex.mapGetNoFork(jar, a[1]); !dup {
			jar.Entries = append(jar.Entries, MapEntry{K: a[1], V: a[2]})
		}
		return a[0]
	})
	// verifnd.CookieSet(w, name) (value string, maxAge int, ok bool): the last cookie of that name set on w
	reg(nd("CookieSet"), func(ex *Exec, fn *ssa.Function, a []Value) Value {
		name := a[1].(*Term)
		ct := ex.eng.LookupType("net/http", "Cookie")
		list := ex.ghostList("cookies.set")
		for i := len(list) - 1; i >= 0; i-- {
			c := list[i].(*StructV)
			n := c.Fields[fieldIndex(ct, "Name")].(*Term)
			eq := Eq(n, name)
			if !eq.IsLit() {
				panic(engineErr("CookieSet: symbolic cookie name"))
			}
			if eq.B {
				return Tuple{c.Fields[fieldIndex(ct, "Value")], c.Fields[fieldIndex(ct, "MaxAge")], tTrue}
			}
		}
		return Tuple{StrLit(""), IntLit(0), tFalse}
	})

	// ---- uuid
	reg("github.com/google/uuid.New", func(ex *Exec, fn *ssa.Function, a []Value) Value {
		return zeroValue(fn.Signature.Results().At(0).Type())
	})
	reg("(github.com/google/uuid.UUID).String", func(ex *Exec, fn *ssa.Function, a []Value) Value {
		s := ex.fresh("uuid", SSeq, "env")
		ex.assume(Eq(SeqLen(s), IntLit(36)))
		return s
	})

	// ---- oauth2.Config
	cfgOf := func(ex *Exec, v Value) (*StructV, types.Type) {
		p, ok := v.(Ptr)
		if !ok || p.Obj == nil {
			ex.goPanic("nil *oauth2.Config")
		}
		return (*p.slot()).(*StructV), ex.eng.LookupType(oauth2Pkg, "Config")
	}
	optPairs := func(ex *Exec, opts Value) [][2]*Term {
		var out [][2]*Term
		s, _ := opts.(SliceV)
		for i := 0; i < s.Len; i++ {
			iv, _ := s.get(i).(Iface)
			sv, ok := iv.V.(*StructV)
			if !ok || len(sv.Fields) != 2 {
				panic(engineErr("oauth2: only SetAuthURLParam options are modelled"))
			}
			out = append(out, [2]*Term{sv.Fields[0].(*Term), sv.Fields[1].(*Term)})
		}
		return out
	}
	setPair := func(pairs [][2]*Term, k, v *Term) [][2]*Term {
		for i := range pairs {
			if e := Eq(pairs[i][0], k); e.IsLit() && e.B {
				pairs[i][1] = v
				return pairs
			}
		}
		return append(pairs, [2]*Term{k, v})
	}
	reg("(*"+oauth2Pkg+".Config).AuthCodeURL", func(ex *Exec, fn *ssa.Function, a []Value) Value {
		cfg, ct := cfgOf(ex, a[0])
		ep := cfg.Fields[fieldIndex(ct, "Endpoint")].(*StructV)
		et := structOf(ct).Field(fieldIndex(ct, "Endpoint")).Type()
		authURL := ep.Fields[fieldIndex(et, "AuthURL")].(*Term)
		var pairs [][2]*Term
		pairs = setPair(pairs, StrLit("response_type"), StrLit("code"))
		pairs = setPair(pairs, StrLit("client_id"), cfg.Fields[fieldIndex(ct, "ClientID")].(*Term))
		if ru := cfg.Fields[fieldIndex(ct, "RedirectURL")].(*Term); !ru.IsLit() || ru.S != "" {
			pairs = setPair(pairs, StrLit("redirect_uri"), ru)
		}
		if sc, ok := cfg.Fields[fieldIndex(ct, "Scopes")].(SliceV); ok && sc.Len > 0 {
			parts := make([]*Term, 0, 2*sc.Len)
			for i := 0; i < sc.Len; i++ {
				if i > 0 {
					parts = append(parts, StrLit(" "))
				}
				parts = append(parts, sc.get(i).(*Term))
			}
			pairs = setPair(pairs, StrLit("scope"), SeqConcat(parts...))
		}
		state := a[1].(*Term)
		if !state.IsLit() || state.S != "" {
			pairs = setPair(pairs, StrLit("state"), state)
		}
		for _, kv := range optPairs(ex, a[2]) {
			pairs = setPair(pairs, kv[0], kv[1])
		}
		var args []*Term
		for _, kv := range pairs {
			args = append(args, kv[0], kv[1])
		}
		pr := intrinsics["net/url.Parse"](ex, nil, []Value{authURL}).(Tuple)
		if e, ok := pr[1].(Iface); ok && e.T != nil {
			panic(engineErr("oauth2.AuthCodeURL: the harness's AuthURL does not parse"))
		}
		usv := ex.urlStruct(pr[0])
		usv.Fields[fieldIndex(ex.urlType(), "RawQuery")] = UF("values.enc", SSeq, args...)
		return intrinsics["(*net/url.URL).String"](ex, nil, []Value{pr[0]})
	})
	reg("(*"+oauth2Pkg+".Config).Exchange", func(ex *Exec, fn *ssa.Function, a []Value) Value {
		cfg, ct := cfgOf(ex, a[0])
		ep := cfg.Fields[fieldIndex(ct, "Endpoint")].(*StructV)
		et := structOf(ct).Field(fieldIndex(ct, "Endpoint")).Type()
		tokenURL := ep.Fields[fieldIndex(et, "TokenURL")].(*Term)
		// the HTTP client travels in the context under oauth2.HTTPClient
		var client Value
		if civ, ok := a[1].(Iface); ok {
			if co, ok := civ.V.(*Opaque); ok {
				for cur := co; cur != nil; {
					if k, ok := cur.Attrs["key"].(Iface); ok && k.T != nil && strings.HasSuffix(k.T.String(), "oauth2/internal.ContextKey") {
						client = cur.Attrs["val"]
						break
					}
					p, ok := cur.Attrs["parent"].(Iface)
					if !ok {
						break
					}
					cur, _ = p.V.(*Opaque)
				}
			}
		}
		cl, _ := client.(Iface)
		if cl.T == nil {
			panic(engineErr("oauth2.Exchange: no HTTP client in the context (harnesses supply one)"))
		}
		var pairs [][2]*Term
		pairs = setPair(pairs, StrLit("grant_type"), StrLit("authorization_code"))
		pairs = setPair(pairs, StrLit("code"), a[2].(*Term))
		if ru := cfg.Fields[fieldIndex(ct, "RedirectURL")].(*Term); !ru.IsLit() || ru.S != "" {
			pairs = setPair(pairs, StrLit("redirect_uri"), ru)
		}
		for _, kv := range optPairs(ex, a[3]) {
			pairs = setPair(pairs, kv[0], kv[1])
		}
		pairs = setPair(pairs, StrLit("client_id"), cfg.Fields[fieldIndex(ct, "ClientID")].(*Term))
		ex.nextID++
		form := &MapV{ID: ex.nextID}
		for _, kv := range pairs {
			form.Entries = append(form.Entries, MapEntry{K: kv[0], V: ex.strSlice([]*Term{kv[1]})})
		}
		reqFn := ex.eng.Func(ndPkg, "Request")
		req := intrinsics[nd("Request")](ex, reqFn, []Value{StrLit("POST"), tokenURL, form, StrLit(""), StrLit(""), tFalse, tFalse})
		doFn := "(*net/http.Client).Do"
		res := intrinsics[doFn](ex, nil, []Value{cl.V, req}).(Tuple)
		tokT := fn.Signature.Results().At(0).Type().(*types.Pointer).Elem()
		if e, ok := res[1].(Iface); ok && e.T != nil {
			return Tuple{Ptr{}, res[1]}
		}
		rt := ex.eng.LookupType("net/http", "Response")
		rsv := (*res[0].(Ptr).slot()).(*StructV)
		status := rsv.Fields[fieldIndex(rt, "StatusCode")].(*Term)
		if !ex.Branch(And(Ge(status, IntLit(200)), Le(status, IntLit(299)))) {
			return Tuple{Ptr{}, errorIface(ex, "oauth2.RetrieveError")}
		}
		// the body is the provider's business: an arbitrary token document, or garbage
		if !ex.Branch(ex.fresh("oauth2.tokendoc.ok", SBool, "env")) {
			return Tuple{Ptr{}, errorIface(ex, "oauth2: cannot parse token response")}
		}
		tok := zeroValue(tokT).(*StructV)
		tok.Fields[fieldIndex(tokT, "AccessToken")] = ex.fresh("oauth2.access_token", SSeq, "env")
		tok.Fields[fieldIndex(tokT, "TokenType")] = StrLit("Bearer")
		return Tuple{Ptr{Obj: ex.newObj(tok, tokT)}, Iface{}}
	})
}
