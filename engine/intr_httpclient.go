package main

// Client side of net/http: requests built by the code under test, (*http.Client).Do dispatched to the
// Transport the harness supplied (a plain Go RoundTripper that draws status / body / failure), response
// bodies as readers. Redirect following (CheckRedirect) is not modelled: Do is exactly one RoundTrip.

import (
	"go/types"
	"strings"

	"golang.org/x/tools/go/ssa"
)

func init() {
	reg("io.NopCloser", func(ex *Exec, fn *ssa.Function, a []Value) Value {
		// the reader object doubles as its closer
		iv, ok := a[0].(Iface)
		if !ok || iv.T == nil {
			ex.goPanic("io.NopCloser(nil)")
		}
		var data *Term
		data = ex.readAll(iv)
		o := ex.newOpaque("reader")
		o.Attrs["data"] = data
		return Iface{T: opaqueType("reader"), V: o}
	})
	opaqueMethods["reader.Close"] = func(ex *Exec, o *Opaque, a []Value) Value { return Iface{} }

	reg("net/http.NewRequestWithContext", func(ex *Exec, fn *ssa.Function, a []Value) Value {
		reqT := fn.Signature.Results().At(0).Type().(*types.Pointer).Elem()
		sv := zeroValue(reqT).(*StructV)
		sv.Fields[fieldIndex(reqT, "Method")] = a[1]
		pr := intrinsics["net/url.Parse"](ex, nil, []Value{a[2]}).(Tuple)
		if e, ok := pr[1].(Iface); ok && e.T != nil {
			return Tuple{Ptr{}, pr[1]}
		}
		sv.Fields[fieldIndex(reqT, "URL")] = pr[0]
		ex.nextID++
		sv.Fields[fieldIndex(reqT, "Header")] = &MapV{ID: ex.nextID}
		sv.Fields[fieldIndex(reqT, "Body")] = a[3]
		sv.Fields[fieldIndex(reqT, "ctx")] = a[0]
		ex.ghost["httpclient.lasturl"] = a[2]
		return Tuple{Ptr{Obj: ex.newObj(sv, reqT)}, Iface{}}
	})
	reg("(*net/http.Response).Location", func(ex *Exec, fn *ssa.Function, a []Value) Value {
		// the scripted responses carry no headers: with a Location header the answer would be its parse result
		if ex.Branch(ex.fresh("resp.has.location", SBool, "env")) {
			return intrinsics["net/url.Parse"](ex, nil, []Value{ex.fresh("resp.location", SSeq, "env")})
		}
		g := ex.eng.pkgs["net/http"].Var("ErrNoLocation")
		return Tuple{Ptr{}, copyVal(ex.globalObj(g).V)}
	})
	reg("(*net/http.Request).SetBasicAuth", func(ex *Exec, fn *ssa.Function, a []Value) Value {
		p := a[0].(Ptr)
		sv := (*p.slot()).(*StructV)
		t := ex.eng.LookupType("net/http", "Request")
		h := sv.Fields[fieldIndex(t, "Header")].(*MapV)
		ex.mapSet(h, StrLit("Authorization"), ex.strSlice([]*Term{UF("basicauth", SSeq, a[1].(*Term), a[2].(*Term))}))
		return nil
	})
	reg("(*net/http.Client).Do", func(ex *Exec, fn *ssa.Function, a []Value) Value {
		p := a[0].(Ptr)
		if p.Obj == nil {
			ex.goPanic("nil *http.Client")
		}
		ct := ex.eng.LookupType("net/http", "Client")
		sv := (*p.slot()).(*StructV)
		tr, _ := sv.Fields[fieldIndex(ct, "Transport")].(Iface)
		if tr.T == nil {
			panic(engineErr("(*http.Client).Do: the client has no Transport; harnesses must supply a RoundTripper"))
		}
		n, _ := ex.ghost["httpclient.calls"].(*Term)
		if n == nil {
			n = IntLit(0)
		}
		ex.ghost["httpclient.calls"] = Add(n, IntLit(1))
		ex.run.note("(*http.Client).Do: exactly one RoundTrip of the supplied Transport (redirect following / CheckRedirect not modelled)")
		rt := ex.eng.LookupType("net/http", "RoundTripper").Underlying().(*types.Interface)
		var m *types.Func
		for i := 0; i < rt.NumMethods(); i++ {
			if rt.Method(i).Name() == "RoundTrip" {
				m = rt.Method(i)
			}
		}
		return ex.invoke(tr, m, []Value{a[1]})
	})
}

// chi router: routes are recorded; Match answers by exact pattern equality (the harnesses use patterns
// without chi wildcards).
const chiPkg = "github.com/go-chi/chi/v5"

func init() {
	muxOf := func(ex *Exec, v Value) *Opaque {
		p, ok := v.(Ptr)
		if !ok || p.Obj == nil {
			ex.goPanic("nil *chi.Mux")
		}
		return (*p.slot()).(*Opaque)
	}
	reg(chiPkg+".NewRouter", func(ex *Exec, fn *ssa.Function, a []Value) Value {
		o := ex.newOpaque("chimux")
		o.Attrs["routes"] = Tuple{}
		return Ptr{Obj: ex.newObj(o, nil)}
	})
	reg(chiPkg+".NewRouteContext", func(ex *Exec, fn *ssa.Function, a []Value) Value {
		return Ptr{Obj: ex.newObj(ex.newOpaque("chictx"), nil)}
	})
	reg("(*"+chiPkg+".Mux).Use", func(ex *Exec, fn *ssa.Function, a []Value) Value { return nil })
	handle := func(ex *Exec, o *Opaque, a []Value) Value {
		if pat := a[0].(*Term); pat.IsLit() {
			if !strings.HasPrefix(pat.S, "/") {
				ex.goPanic("chi: routing pattern must begin with '/' in '" + pat.S + "'")
			}
		} else {
			ex.Oblige("panic", "chi: routing pattern must begin with '/'", SeqPrefixOf(StrLit("/"), pat))
		}
		o.Attrs["routes"] = append(o.Attrs["routes"].(Tuple), a[0])
		return nil
	}
	match := func(ex *Exec, o *Opaque, a []Value) Value {
		var alts []*Term
		for _, r := range o.Attrs["routes"].(Tuple) {
			alts = append(alts, Eq(r.(*Term), a[2].(*Term)))
		}
		if len(alts) == 0 {
			return tFalse
		}
		return Or(alts...)
	}
	reg("(*"+chiPkg+".Mux).HandleFunc", func(ex *Exec, fn *ssa.Function, a []Value) Value { return handle(ex, muxOf(ex, a[0]), a[1:]) })
	reg("(*"+chiPkg+".Mux).Handle", func(ex *Exec, fn *ssa.Function, a []Value) Value { return handle(ex, muxOf(ex, a[0]), a[1:]) })
	reg("(*"+chiPkg+".Mux).Match", func(ex *Exec, fn *ssa.Function, a []Value) Value { return match(ex, muxOf(ex, a[0]), a[1:]) })
	opaqueMethods["chimux.HandleFunc"] = handle
	opaqueMethods["chimux.Handle"] = handle
	opaqueMethods["chimux.Match"] = match
	opaqueMethods["chimux.Use"] = func(ex *Exec, o *Opaque, a []Value) Value { return nil }
}
