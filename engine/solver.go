package main

// One long-lived solver process per worker (z3 -in / cvc5 --incremental), driven
// with push/pop. Any "(error" line makes the query inconclusive.

import (
	"bufio"
	"fmt"
	"io"
	"math/big"
	"os/exec"
	"strings"
	"time"
)

type SolverKind string

const (
	Z3    SolverKind = "z3"
	Z3New SolverKind = "z3-new"
	CVC5  SolverKind = "cvc5"
)

type Solver struct {
	kind     SolverKind
	cmd      *exec.Cmd
	in       io.WriteCloser
	out      *bufio.Reader
	declared []map[string]bool // per push level
	Queries  int
	Time     time.Duration
	timeout  int // ms
	log      io.Writer
	seed     int
	lines    chan string
	frames   [][]string // commands sent at each push level (for restart after a hard timeout)
	Restarts int
}

func NewSolver(kind SolverKind, timeoutMs int, seed int) (*Solver, error) {
	s := &Solver{kind: kind, timeout: timeoutMs, seed: seed}
	s.declared = []map[string]bool{{}}
	s.frames = [][]string{{}}
	if err := s.start(); err != nil {
		return nil, err
	}
	return s, nil
}

func (s *Solver) start() error {
	var cmd *exec.Cmd
	switch s.kind {
	case Z3, Z3New:
		cmd = exec.Command(string(s.kind), "-in", fmt.Sprintf("-t:%d", s.timeout))
	case CVC5:
		cmd = exec.Command("cvc5", "--incremental", "--strings-exp", "--produce-models", "--lang=smt2", fmt.Sprintf("--tlimit-per=%d", s.timeout))
	}
	in, err := cmd.StdinPipe()
	if err != nil {
		return err
	}
	out, err := cmd.StdoutPipe()
	if err != nil {
		return err
	}
	cmd.Stderr = nil
	if err := cmd.Start(); err != nil {
		return err
	}
	s.cmd, s.in = cmd, in
	s.out = bufio.NewReaderSize(out, 1<<20)
	lines := make(chan string, 1024)
	s.lines = lines
	rd := s.out
	go func() {
		defer close(lines)
		for {
			line, err := rd.ReadString('\n')
			if line != "" {
				lines <- line
			}
			if err != nil {
				return
			}
		}
	}()
	if s.kind == CVC5 {
		s.raw("(set-logic ALL)")
	} else {
		s.raw("(set-option :produce-models true)")
		if s.seed != 0 {
			s.raw(fmt.Sprintf("(set-option :smt.random_seed %d)", s.seed))
			s.raw(fmt.Sprintf("(set-option :sat.random_seed %d)", s.seed))
		}
	}
	return nil
}

// restart kills a stuck solver process and rebuilds its assertion stack.
func (s *Solver) restart() {
	s.cmd.Process.Kill()
	s.in.Close()
	go s.cmd.Wait()
	s.Restarts++
	if err := s.start(); err != nil {
		return
	}
	for i, fr := range s.frames {
		if i > 0 {
			s.raw("(push 1)")
		}
		for _, c := range fr {
			s.raw(c)
		}
	}
}

// readLine waits for one line of solver output; ok=false on hard timeout or EOF.
func (s *Solver) readLine(deadline time.Time) (string, bool) {
	d := time.Until(deadline)
	if d < 0 {
		d = 0
	}
	t := time.NewTimer(d)
	defer t.Stop()
	select {
	case l, ok := <-s.lines:
		return l, ok
	case <-t.C:
		return "", false
	}
}

func (s *Solver) Close() {
	s.in.Close()
	done := make(chan struct{})
	go func() { s.cmd.Wait(); close(done) }()
	select {
	case <-done:
	case <-time.After(2 * time.Second):
		s.cmd.Process.Kill()
	}
}

func (s *Solver) raw(line string) {
	if s.log != nil {
		fmt.Fprintln(s.log, line)
	}
	io.WriteString(s.in, line)
	io.WriteString(s.in, "\n")
}

// send transmits a command that changes the assertion stack (recorded for restarts).
func (s *Solver) send(line string) {
	s.frames[len(s.frames)-1] = append(s.frames[len(s.frames)-1], line)
	s.raw(line)
}

func (s *Solver) Push() {
	s.raw("(push 1)")
	s.declared = append(s.declared, map[string]bool{})
	s.frames = append(s.frames, nil)
}
func (s *Solver) Pop() {
	s.raw("(pop 1)")
	s.declared = s.declared[:len(s.declared)-1]
	s.frames = s.frames[:len(s.frames)-1]
}
func (s *Solver) Depth() int { return len(s.declared) - 1 }

func (s *Solver) isDeclared(n string) bool {
	for _, m := range s.declared {
		if m[n] {
			return true
		}
	}
	return false
}

func (s *Solver) declareFor(t *Term) {
	ds := map[string]decl{}
	collectDecls(t, map[*Term]bool{}, ds)
	for _, d := range sortedDecls(ds) {
		if !s.isDeclared(d.name) {
			s.send(d.SMT())
			s.declared[len(s.declared)-1][d.name] = true
		}
	}
}

func (s *Solver) Assert(t *Term) {
	if t.IsLit() && t.B {
		return
	}
	s.declareFor(t)
	s.send("(assert " + t.String() + ")")
}

// Check returns "sat", "unsat" or "unknown" (errors and timeouts map to unknown).
func (s *Solver) Check() string {
	t0 := time.Now()
	marker := fmt.Sprintf("m%d", s.Queries)
	s.raw("(check-sat)")
	s.raw("(echo \"" + marker + "\")")
	s.Queries++
	res := "unknown"
	sawErr := false
	deadline := t0.Add(time.Duration(s.timeout)*time.Millisecond + 3*time.Second)
	for {
		line, ok := s.readLine(deadline)
		if !ok {
			lastSolverError = "hard timeout: solver process restarted"
			s.restart()
			s.Time += time.Since(t0)
			return "unknown"
		}
		line = strings.TrimSpace(line)
		if line == marker || line == "\""+marker+"\"" {
			break
		}
		switch {
		case line == "sat", line == "unsat", line == "unknown":
			res = line
		case strings.Contains(line, "(error"):
			sawErr = true
			if s.log != nil {
				fmt.Fprintln(s.log, "; ERR", line)
			}
			lastSolverError = line
		}
	}
	s.Time += time.Since(t0)
	if sawErr {
		return "unknown"
	}
	return res
}

var lastSolverError string

// CheckWith: push, assert extra, check, (optionally get values), pop.
func (s *Solver) CheckWith(extra *Term, want []*Term) (string, map[string]*Term) {
	s.Push()
	defer s.Pop()
	s.Assert(extra)
	for _, w := range want {
		s.declareFor(w)
	}
	r := s.Check()
	if r == "sat" && len(want) > 0 {
		return r, s.GetValues(want)
	}
	return r, nil
}

// GetValues evaluates the given terms in the current model.
func (s *Solver) GetValues(ts []*Term) map[string]*Term {
	res := map[string]*Term{}
	if len(ts) == 0 {
		return res
	}
	// ask in chunks so one failure does not lose everything
	const chunk = 40
	for i := 0; i < len(ts); i += chunk {
		j := i + chunk
		if j > len(ts) {
			j = len(ts)
		}
		var b strings.Builder
		b.WriteString("(get-value (")
		for _, t := range ts[i:j] {
			b.WriteString(t.String())
			b.WriteString(" ")
		}
		b.WriteString("))")
		marker := fmt.Sprintf("g%d_%d", s.Queries, i)
		s.raw(b.String())
		s.raw("(echo \"" + marker + "\")")
		var buf strings.Builder
		deadline := time.Now().Add(20 * time.Second)
		for {
			line, ok := s.readLine(deadline)
			if !ok {
				break
			}
			tl := strings.TrimSpace(line)
			if tl == marker || tl == "\""+marker+"\"" {
				break
			}
			buf.WriteString(line)
		}
		sx, err := parseSexp(buf.String())
		if err != nil || sx == nil || sx.atom != "" {
			continue
		}
		for k, pair := range sx.list {
			if len(pair.list) != 2 || i+k >= j {
				continue
			}
			v := sexpToValue(pair.list[1], ts[i+k].Sort)
			if v != nil {
				res[ts[i+k].String()] = v
			}
		}
	}
	return res
}

// ---------- s-expressions ----------

type sexp struct {
	atom string
	list []*sexp
}

func parseSexp(src string) (*sexp, error) {
	p := &sxParser{s: src}
	p.skip()
	if p.i >= len(p.s) {
		return nil, nil
	}
	return p.parse()
}

type sxParser struct {
	s string
	i int
}

func (p *sxParser) skip() {
	for p.i < len(p.s) {
		c := p.s[p.i]
		if c == ' ' || c == '\n' || c == '\t' || c == '\r' {
			p.i++
		} else if c == ';' {
			for p.i < len(p.s) && p.s[p.i] != '\n' {
				p.i++
			}
		} else {
			break
		}
	}
}

func (p *sxParser) parse() (*sexp, error) {
	p.skip()
	if p.i >= len(p.s) {
		return nil, fmt.Errorf("eof")
	}
	c := p.s[p.i]
	if c == '(' {
		p.i++
		n := &sexp{}
		for {
			p.skip()
			if p.i >= len(p.s) {
				return nil, fmt.Errorf("eof in list")
			}
			if p.s[p.i] == ')' {
				p.i++
				if n.list == nil {
					n.list = []*sexp{}
				}
				return n, nil
			}
			ch, err := p.parse()
			if err != nil {
				return nil, err
			}
			n.list = append(n.list, ch)
		}
	}
	if c == '"' {
		j := p.i + 1
		for j < len(p.s) {
			if p.s[j] == '"' {
				if j+1 < len(p.s) && p.s[j+1] == '"' {
					j += 2
					continue
				}
				break
			}
			j++
		}
		a := p.s[p.i : j+1]
		p.i = j + 1
		return &sexp{atom: a}, nil
	}
	if c == '|' {
		j := p.i + 1
		for j < len(p.s) && p.s[j] != '|' {
			j++
		}
		a := p.s[p.i : j+1]
		p.i = j + 1
		return &sexp{atom: a}, nil
	}
	j := p.i
	for j < len(p.s) && !strings.ContainsRune(" \n\t\r()", rune(p.s[j])) {
		j++
	}
	a := p.s[p.i:j]
	p.i = j
	return &sexp{atom: a}, nil
}

func (x *sexp) String() string {
	if x.list == nil {
		return x.atom
	}
	ps := make([]string, len(x.list))
	for i, c := range x.list {
		ps[i] = c.String()
	}
	return "(" + strings.Join(ps, " ") + ")"
}

func sexpToValue(x *sexp, want Sort) *Term {
	switch want {
	case SBool:
		if x.atom == "true" {
			return tTrue
		}
		if x.atom == "false" {
			return tFalse
		}
	case SInt:
		if v, ok := sexpInt(x); ok {
			return BigLit(v)
		}
	case SBV8:
		if v, ok := sexpBV(x); ok {
			return ByteLit(v)
		}
	case SSeq:
		if bs, ok := sexpSeq(x); ok {
			return StrLit(string(bs))
		}
	case SFP:
		return nil
	}
	return nil
}

func sexpInt(x *sexp) (*big.Int, bool) {
	if x.atom != "" {
		v, ok := new(big.Int).SetString(x.atom, 10)
		return v, ok
	}
	if len(x.list) == 2 && x.list[0].atom == "-" {
		v, ok := sexpInt(x.list[1])
		if !ok {
			return nil, false
		}
		return v.Neg(v), true
	}
	return nil, false
}

func sexpBV(x *sexp) (byte, bool) {
	a := x.atom
	if strings.HasPrefix(a, "#x") && len(a) == 4 {
		var v int
		fmt.Sscanf(a[2:], "%x", &v)
		return byte(v), true
	}
	if strings.HasPrefix(a, "#b") && len(a) == 10 {
		v := 0
		for _, c := range a[2:] {
			v = v*2 + int(c-'0')
		}
		return byte(v), true
	}
	return 0, false
}

func sexpSeq(x *sexp) ([]byte, bool) {
	if x.atom != "" {
		if strings.HasPrefix(x.atom, "\"") { // string literal form
			return unescapeSMTString(x.atom[1 : len(x.atom)-1]), true
		}
		return nil, false
	}
	if len(x.list) == 0 {
		return nil, false
	}
	switch x.list[0].atom {
	case "as": // (as seq.empty ...)
		return []byte{}, true
	case "seq.unit":
		if len(x.list) == 2 {
			b, ok := sexpBV(x.list[1])
			return []byte{b}, ok
		}
	case "seq.++", "str.++":
		var out []byte
		for _, c := range x.list[1:] {
			bs, ok := sexpSeq(c)
			if !ok {
				return nil, false
			}
			out = append(out, bs...)
		}
		return out, true
	}
	return nil, false
}

func unescapeSMTString(s string) []byte {
	var out []byte
	for i := 0; i < len(s); i++ {
		if s[i] == '\\' && i+1 < len(s) {
			if s[i+1] == 'x' && i+3 < len(s) {
				var v int
				fmt.Sscanf(s[i+2:i+4], "%x", &v)
				out = append(out, byte(v))
				i += 3
				continue
			}
			if s[i+1] == 'u' && i+2 < len(s) && s[i+2] == '{' {
				j := strings.IndexByte(s[i:], '}')
				if j > 0 {
					var v int
					fmt.Sscanf(s[i+3:i+j], "%x", &v)
					out = append(out, byte(v))
					i += j
					continue
				}
			}
		}
		if s[i] == '"' && i+1 < len(s) && s[i+1] == '"' {
			out = append(out, '"')
			i++
			continue
		}
		out = append(out, s[i])
	}
	return out
}
