package main

import (
	"os"
	"fmt"
	"go/constant"
	"go/token"
	"go/types"
	"math/big"
	"strings"

	"golang.org/x/tools/go/ssa"
)

// ---------- path state ----------

type Draw struct {
	Tag  string
	T    *Term
	Kind string // "input" | "env"
}

type pathEnd struct{ reason string }

type rangeCond struct {
	label, site string
	c           *Term
}

// flushRange: one query for all integer-range side conditions collected on this path
// (pc at the end of the path implies pc at each collection point).
func (ex *Exec) flushRange() {
	if len(ex.rangeConds) == 0 {
		return
	}
	cs := make([]*Term, len(ex.rangeConds))
	for i, rc := range ex.rangeConds {
		cs[i] = rc.c
	}
	all := And(cs...)
	r, _ := ex.sol.CheckWith(Not(all), nil)
	ex.run.addOblQuery(r)
	if r == "unsat" {
		for _, rc := range ex.rangeConds {
			ex.run.obligation("range", rc.label, rc.site, "discharged", nil, ex)
		}
		ex.rangeConds = nil
		return
	}
	for _, rc := range ex.rangeConds {
		r, model := ex.sol.CheckWith(Not(rc.c), ex.modelTerms())
		ex.run.addOblQuery(r)
		switch r {
		case "unsat":
			ex.run.obligation("range", rc.label, rc.site, "discharged", nil, ex)
		case "sat":
			ex.run.obligation("range", rc.label, rc.site, "violated", model, ex)
		default:
			ex.run.obligation("range", rc.label, rc.site, "unknown", nil, ex)
			ex.run.inconclusive("query", "range obligation at "+rc.site+": solver answered unknown ("+lastSolverError+")")
		}
	}
	ex.rangeConds = nil
}

type Frame struct {
	fn     *ssa.Function
	env    map[ssa.Value]Value
	defers []deferred
	visits map[*ssa.BasicBlock]int
	panicking bool
}

type deferred struct {
	fv   Value
	args []Value
	inv  *ssa.CallCommon
}

type Exec struct {
	eng      *Engine
	run      *Run
	sol      *Solver
	prefix   []int
	pos      int
	trace    []int
	pc       []*Term
	nextID   int
	globals  map[*ssa.Global]*Object
	counters map[string]int
	draws    []Draw
	covers   []string
	steps    int
	depth    int
	stack    []*Frame
	fnSeen   map[*ssa.Function]bool
	memo     map[string]Value // per-path memo for deterministic intrinsics
	ghost    map[string]Value
	nowCount int
	lastNow  *Term
	intrUsed map[string]bool
	curSite  string
	thr      *threads
	choices  []ChoiceRec
	rangeConds []rangeCond
	noRange  bool
	dlog     []string
	ufUse    int // semantic library functions left uninterpreted on this path (models may be unrealisable)
}

func (ex *Exec) newObj(v Value, t types.Type) *Object {
	ex.nextID++
	return &Object{ID: ex.nextID, V: v, Typ: t}
}

func (ex *Exec) fresh(tag string, s Sort, kind string) *Term {
	k := ex.counters[tag]
	ex.counters[tag] = k + 1
	name := tag
	if k > 0 {
		name = fmt.Sprintf("%s#%d", tag, k)
	}
	t := Var(name, s)
	ex.draws = append(ex.draws, Draw{Tag: name, T: t, Kind: kind})
	return t
}

func (ex *Exec) assume(c *Term) {
	if c.IsLit() {
		if !c.B {
			panic(pathEnd{"assume-false"})
		}
		return
	}
	ex.pc = append(ex.pc, c)
	ex.sol.Assert(c)
	ex.learn(c)
}

// learn records simple syntactic facts from assumptions (x does not contain a literal).
func (ex *Exec) learn(c *Term) {
	if c.Op == "and" {
		for _, a := range c.Args {
			ex.learn(a)
		}
		return
	}
	if c.Op == "not" && c.Args[0].Op == "seq.contains" && c.Args[0].Args[1].IsLit() {
		ex.memo["nocontain:"+c.Args[0].Args[0].String()+"|"+c.Args[0].Args[1].S] = tTrue
	}
}

func (ex *Exec) knownNoContain(x *Term, sep string) bool {
	if x.IsLit() {
		return !strings.Contains(x.S, sep)
	}
	_, ok := ex.memo["nocontain:"+x.String()+"|"+sep]
	return ok
}

// feasible: is pc ∧ c satisfiable?  "unknown" counts as feasible.
func (ex *Exec) feasible(c *Term) bool {
	r, _ := ex.sol.CheckWith(c, nil)
	ex.run.addFeasQuery(r)
	return r != "unsat"
}

// Branch decides the direction of a symbolic condition, forking the path.
func (ex *Exec) Branch(c *Term) bool {
	if c.IsLit() {
		return c.B
	}
	var d int
	if ex.pos < len(ex.prefix) {
		d = ex.prefix[ex.pos]
		ex.pos++
	} else {
		ex.pos++
		if len(ex.trace) > ex.run.cfg.MaxDecisions {
			ex.run.inconclusive("unwind", fmt.Sprintf("more than %d decisions on one path at %s", ex.run.cfg.MaxDecisions, ex.where()))
			panic(pathEnd{"unwind"})
		}
		ft := ex.feasible(c)
		if !ft {
			d = 0
			if ex.run.cfg.CheckBoth && !ex.feasible(Not(c)) {
				panic(pathEnd{"infeasible"})
			}
		} else if !ex.feasible(Not(c)) {
			d = 1
		} else {
			alt := append(append([]int{}, ex.trace...), 0)
			ex.run.push(alt)
			d = 1
			if forkStats {
				ex.run.countFork(ex.where())
			}
		}
	}
	ex.trace = append(ex.trace, d)
	if debugTrace {
		cs := c.String()
		if len(cs) > 160 {
			cs = cs[:160] + "..."
		}
		ex.dlog = append(ex.dlog, fmt.Sprintf("%d @%s: %s", d, ex.where(), cs))
	}
	if d == 1 {
		ex.assume(c)
		return true
	}
	ex.assume(Not(c))
	return false
}

var debugTrace = os.Getenv("VERIF_TRACE") != ""
var forkStats = os.Getenv("VERIF_FORKSTATS") != ""
var whereDebug = os.Getenv("VERIF_WHERE") != ""

// Choose makes an exhaustive concrete case split 0..n-1.
func (ex *Exec) Choose(n int) int {
	if n <= 1 {
		return 0
	}
	var d int
	if ex.pos < len(ex.prefix) {
		d = ex.prefix[ex.pos]
		ex.pos++
	} else {
		ex.pos++
		for i := 1; i < n; i++ {
			alt := append(append([]int{}, ex.trace...), i)
			ex.run.push(alt)
		}
		d = 0
	}
	ex.trace = append(ex.trace, d)
	return d
}

// ChooseFeasible forks over the alternatives whose condition is feasible.
func (ex *Exec) ChooseFeasible(conds []*Term) int {
	if ex.pos < len(ex.prefix) {
		d := ex.prefix[ex.pos]
		ex.pos++
		ex.trace = append(ex.trace, d)
		ex.assume(conds[d])
		return d
	}
	ex.pos++
	first := -1
	for i, c := range conds {
		if c.IsLit() && !c.B {
			continue
		}
		if !c.IsLit() && !ex.feasible(c) {
			continue
		}
		if first < 0 {
			first = i
		} else {
			alt := append(append([]int{}, ex.trace...), i)
			ex.run.push(alt)
		}
	}
	if first < 0 {
		panic(pathEnd{"infeasible"})
	}
	ex.trace = append(ex.trace, first)
	ex.assume(conds[first])
	return first
}

func (ex *Exec) where() string {
	if len(ex.stack) == 0 {
		return "?"
	}
	var parts []string
	for i := len(ex.stack) - 1; i >= 0 && len(parts) < 4; i-- {
		parts = append(parts, ex.stack[i].fn.String())
	}
	return strings.Join(parts, " < ")
}

// siteFunc is the innermost repository (non-harness) function on the stack.
func (ex *Exec) siteFunc() string {
	for i := len(ex.stack) - 1; i >= 0; i-- {
		fn := ex.stack[i].fn
		if fn.Pkg != nil && isRepoPkg(fn.Pkg.Pkg.Path()) && fn.Pkg.Pkg.Path() != ndPkg {
			name := fn.String()
			if !strings.Contains(name, "Verif") && !strings.Contains(name, "verif") {
				return shortFn(name)
			}
		}
	}
	if len(ex.stack) > 0 {
		return shortFn(ex.stack[len(ex.stack)-1].fn.String())
	}
	return "?"
}

func shortFn(s string) string {
	return strings.ReplaceAll(s, repoMod+"/pkg/", "")
}

func (ex *Exec) modelTerms() []*Term {
	ts := make([]*Term, len(ex.draws))
	for i, d := range ex.draws {
		ts[i] = d.T
	}
	return ts
}

// Oblige records a proof obligation: pc ⇒ c.
func (ex *Exec) Oblige(class, label string, c *Term) {
	site := ex.siteFunc()
	if c.IsLit() && c.B {
		ex.run.obligation(class, label, site, "discharged-concrete", nil, ex)
		return
	}
	r, model := ex.sol.CheckWith(Not(c), ex.modelTerms())
	ex.run.addOblQuery(r)
	switch r {
	case "unsat":
		ex.run.obligation(class, label, site, "discharged", nil, ex)
	case "sat":
		ex.run.obligation(class, label, site, "violated", model, ex)
	default:
		ex.run.obligation(class, label, site, "unknown", nil, ex)
		ex.run.inconclusive("query", fmt.Sprintf("%s obligation %q at %s: solver answered unknown (%s)", class, label, site, lastSolverError))
	}
	if c.IsLit() { // concretely false: nothing to continue with
		panic(pathEnd{"obligation-failed"})
	}
	ex.assume(c)
}

// goPanic: a Go run-time panic that is certain on this path.
func (ex *Exec) goPanic(kind string) {
	ex.Oblige("panic", kind, tFalse)
	panic(pathEnd{"panic"})
}

// ---------- running functions ----------

func (ex *Exec) callFunction(fn *ssa.Function, args []Value, binds []Value) Value {
	if intr, ok := lookupIntrinsic(fn); ok {
		ex.intrUsed[intrinsicName(fn)] = true
		return intr(ex, fn, args)
	}
	if fn.Blocks == nil {
		panic(engineErr("unsupported callee (no body, no intrinsic): %s  [called from %s]", fn.String(), ex.where()))
	}
	if !allowedBody(fn) {
		panic(engineErr("unsupported callee (library body not allow-listed, no intrinsic): %s  [called from %s]", fn.String(), ex.where()))
	}
	if ex.depth > 250 {
		ex.run.inconclusive("unwind", "call depth > 250 at "+ex.where())
		panic(pathEnd{"unwind"})
	}
	if !ex.fnSeen[fn] {
		ex.fnSeen[fn] = true
	}
	fr := &Frame{fn: fn, env: make(map[ssa.Value]Value, 32), visits: map[*ssa.BasicBlock]int{}}
	for i, p := range fn.Params {
		if i < len(args) {
			fr.env[p] = args[i]
		} else {
			panic(engineErr("arity mismatch calling %s: %d args", fn, len(args)))
		}
	}
	for i, fv := range fn.FreeVars {
		fr.env[fv] = binds[i]
	}
	ex.stack = append(ex.stack, fr)
	ex.depth++
	defer func() {
		ex.depth--
		ex.stack = ex.stack[:len(ex.stack)-1]
	}()
	return ex.runFrame(fr)
}

func (ex *Exec) runFrame(fr *Frame) Value {
	var prev *ssa.BasicBlock
	blk := fr.fn.Blocks[0]
	for {
		fr.visits[blk]++
		if fr.visits[blk] > ex.run.cfg.MaxBlockVisits {
			ex.run.inconclusive("unwind", fmt.Sprintf("block visited more than %d times in %s", ex.run.cfg.MaxBlockVisits, fr.fn))
			panic(pathEnd{"unwind"})
		}
		var next *ssa.BasicBlock
		for _, ins := range blk.Instrs {
			ex.steps++
			switch i := ins.(type) {
			case *ssa.Phi:
				for k, p := range blk.Preds {
					if p == prev {
						fr.env[i] = ex.get(fr, i.Edges[k])
						break
					}
				}
			case *ssa.If:
				c := ex.get(fr, i.Cond).(*Term)
				if ex.Branch(c) {
					next = blk.Succs[0]
				} else {
					next = blk.Succs[1]
				}
			case *ssa.Jump:
				next = blk.Succs[0]
			case *ssa.Return:
				var rv Value
				switch len(i.Results) {
				case 0:
					rv = nil
				case 1:
					rv = ex.get(fr, i.Results[0])
				default:
					t := make(Tuple, len(i.Results))
					for k, r := range i.Results {
						t[k] = ex.get(fr, r)
					}
					rv = t
				}
				return rv
			case *ssa.RunDefers:
				ex.runDefers(fr)
			case *ssa.Panic:
				v := ex.get(fr, i.X)
				ex.goPanic("explicit panic: " + showValue(v))
			default:
				ex.step(fr, ins)
			}
			if ex.thr != nil {
				ex.thr.maybeYield(ex)
			}
		}
		if next == nil {
			panic(engineErr("block without terminator in %s", fr.fn))
		}
		prev, blk = blk, next
	}
}

func (ex *Exec) runDefers(fr *Frame) {
	for len(fr.defers) > 0 {
		d := fr.defers[len(fr.defers)-1]
		fr.defers = fr.defers[:len(fr.defers)-1]
		if d.inv != nil {
			ex.invoke(d.fv, d.inv.Method, d.args)
		} else {
			ex.callValue(d.fv, d.args)
		}
	}
}

func (ex *Exec) get(fr *Frame, v ssa.Value) Value {
	switch x := v.(type) {
	case *ssa.Const:
		return ex.constValue(x)
	case *ssa.Global:
		return Ptr{Obj: ex.globalObj(x)}
	case *ssa.Function:
		return &Closure{Fn: x}
	case *ssa.Builtin:
		return &Closure{Name: "builtin:" + x.Name()}
	}
	r, ok := fr.env[v]
	if !ok {
		panic(engineErr("no value for %s (%T) in %s", v.Name(), v, fr.fn))
	}
	return r
}

func (ex *Exec) globalObj(g *ssa.Global) *Object {
	if o, ok := ex.globals[g]; ok {
		return o
	}
	elem := g.Type().(*types.Pointer).Elem()
	var v Value
	if iv, ok := libGlobal(ex, g); ok {
		v = iv
	} else {
		v = zeroValue(elem)
	}
	o := ex.newObj(v, elem)
	o.Label = "global"
	o.Name = g.String()
	ex.globals[g] = o
	return o
}

func (ex *Exec) constValue(c *ssa.Const) Value {
	t := c.Type()
	if c.Value == nil {
		return zeroValue(t)
	}
	switch u := t.Underlying().(type) {
	case *types.Basic:
		switch {
		case u.Info()&types.IsBoolean != 0:
			return BoolLit(constant.BoolVal(c.Value))
		case u.Info()&types.IsString != 0:
			return StrLit(constant.StringVal(c.Value))
		case u.Kind() == types.Uint8:
			i, _ := constant.Int64Val(constant.ToInt(c.Value))
			return ByteLit(byte(i))
		case u.Info()&types.IsInteger != 0:
			bi, ok := new(big.Int).SetString(constant.ToInt(c.Value).ExactString(), 10)
			if !ok {
				panic(engineErr("bad int const %s", c.Value))
			}
			return BigLit(bi)
		case u.Info()&types.IsFloat != 0:
			f, _ := constant.Float64Val(c.Value)
			return FloatLit(f)
		}
	}
	panic(engineErr("unsupported constant %s of type %s", c.Value, t))
}

// ---------- instructions ----------

func (ex *Exec) step(fr *Frame, ins ssa.Instruction) {
	switch i := ins.(type) {
	case *ssa.DebugRef:
	case *ssa.Alloc:
		elem := i.Type().(*types.Pointer).Elem()
		fr.env[i] = Ptr{Obj: ex.newObj(zeroValue(elem), elem)}
	case *ssa.UnOp:
		fr.env[i] = ex.unop(fr, i)
	case *ssa.BinOp:
		fr.env[i] = ex.binop(i.Op, ex.get(fr, i.X), ex.get(fr, i.Y), i.X.Type(), i.Type())
	case *ssa.Store:
		p := ex.get(fr, i.Addr).(Ptr)
		if p.Obj == nil {
			ex.goPanic("nil pointer dereference (store)")
		}
		ex.writeCheck(p.Obj, "store")
		*p.slot() = copyVal(ex.get(fr, i.Val))
	case *ssa.FieldAddr:
		p := ex.get(fr, i.X).(Ptr)
		if p.Obj == nil {
			ex.goPanic(fmt.Sprintf("nil pointer dereference (field %s)", fieldName(i.X.Type(), i.Field)))
		}
		fr.env[i] = p.child(i.Field)
	case *ssa.Field:
		s := ex.get(fr, i.X).(*StructV)
		fr.env[i] = copyVal(s.Fields[i.Field])
	case *ssa.IndexAddr:
		fr.env[i] = ex.indexAddr(fr, i)
	case *ssa.Index:
		fr.env[i] = ex.index(fr, i)
	case *ssa.Lookup:
		fr.env[i] = ex.lookup(fr, i)
	case *ssa.Slice:
		fr.env[i] = ex.slice(fr, i)
	case *ssa.MakeInterface:
		fr.env[i] = Iface{T: i.X.Type(), V: ex.get(fr, i.X)}
	case *ssa.ChangeInterface:
		fr.env[i] = ex.get(fr, i.X)
	case *ssa.ChangeType:
		fr.env[i] = ex.get(fr, i.X)
	case *ssa.Convert:
		fr.env[i] = ex.convert(ex.get(fr, i.X), i.X.Type(), i.Type())
	case *ssa.MultiConvert:
		fr.env[i] = ex.convert(ex.get(fr, i.X), i.X.Type(), i.Type())
	case *ssa.TypeAssert:
		fr.env[i] = ex.typeAssert(fr, i)
	case *ssa.Extract:
		fr.env[i] = ex.get(fr, i.Tuple).(Tuple)[i.Index]
	case *ssa.MakeClosure:
		binds := make([]Value, len(i.Bindings))
		for k, b := range i.Bindings {
			binds[k] = ex.get(fr, b)
		}
		fr.env[i] = &Closure{Fn: i.Fn.(*ssa.Function), Binds: binds}
	case *ssa.MakeMap:
		ex.nextID++
		fr.env[i] = &MapV{ID: ex.nextID}
	case *ssa.MakeSlice:
		n := ex.concreteInt(ex.get(fr, i.Len), "make len")
		c := ex.concreteInt(ex.get(fr, i.Cap), "make cap")
		if n < 0 || c < n {
			ex.goPanic("makeslice: len out of range")
		}
		et := i.Type().Underlying().(*types.Slice).Elem()
		arr := &ArrayV{Elems: make([]Value, c)}
		for k := range arr.Elems {
			arr.Elems[k] = zeroValue(et)
		}
		fr.env[i] = SliceV{Arr: ex.newObj(arr, nil), Off: 0, Len: n, Cap: c}
	case *ssa.MakeChan:
		ex.nextID++
		fr.env[i] = &ChanV{ID: ex.nextID, Cap: ex.concreteInt(ex.get(fr, i.Size), "chan size")}
	case *ssa.MapUpdate:
		m := ex.get(fr, i.Map).(*MapV)
		if m == nil {
			ex.goPanic("assignment to entry in nil map")
		}
		ex.mapLabelCheck(m)
		ex.mapSet(m, ex.get(fr, i.Key), copyVal(ex.get(fr, i.Value)))
	case *ssa.Range:
		fr.env[i] = ex.makeRange(ex.get(fr, i.X))
	case *ssa.Next:
		fr.env[i] = ex.rangeNext(ex.get(fr, i.Iter).(*rangeIter), i)
	case *ssa.Call:
		fr.env[i] = ex.doCall(fr, &i.Call)
	case *ssa.Defer:
		d := deferred{}
		if i.Call.IsInvoke() {
			d.fv = ex.get(fr, i.Call.Value)
			d.inv = &i.Call
		} else {
			d.fv = ex.get(fr, i.Call.Value)
		}
		for _, a := range i.Call.Args {
			d.args = append(d.args, ex.get(fr, a))
		}
		fr.defers = append(fr.defers, d)
	case *ssa.Go:
		if ex.thr == nil {
			panic(engineErr("go statement outside concurrency mode in %s", fr.fn))
		}
		var args []Value
		for _, a := range i.Call.Args {
			args = append(args, ex.get(fr, a))
		}
		ex.thr.spawn(ex, ex.get(fr, i.Call.Value), args)
	case *ssa.Select:
		if ex.thr == nil {
			panic(engineErr("select outside concurrency mode in %s", fr.fn))
		}
		fr.env[i] = ex.thr.doSelect(ex, fr, i)
	case *ssa.Send:
		panic(engineErr("channel send unsupported in %s", fr.fn))
	default:
		panic(engineErr("unsupported SSA instruction %T in %s", ins, fr.fn))
	}
}

func fieldName(t types.Type, idx int) string {
	if p, ok := t.Underlying().(*types.Pointer); ok {
		t = p.Elem()
	}
	if s, ok := t.Underlying().(*types.Struct); ok && idx < s.NumFields() {
		return s.Field(idx).Name()
	}
	return fmt.Sprint(idx)
}

func (ex *Exec) concreteInt(v Value, what string) int {
	t, ok := v.(*Term)
	if !ok {
		panic(engineErr("%s: not an int: %T", what, v))
	}
	if t.Sort == SBV8 && t.IsLit() {
		return int(t.I.Int64())
	}
	if !t.IsLit() {
		panic(engineErr("%s: symbolic integer %s not supported here (%s)", what, t, ex.where()))
	}
	return int(t.I.Int64())
}

func (ex *Exec) unop(fr *Frame, i *ssa.UnOp) Value {
	x := ex.get(fr, i.X)
	switch i.Op {
	case token.MUL: // load
		p := x.(Ptr)
		if p.Obj == nil {
			ex.goPanic("nil pointer dereference (load)")
		}
		ex.readCheck(p.Obj)
		return copyVal(*p.slot())
	case token.NOT:
		return Not(x.(*Term))
	case token.SUB:
		t := x.(*Term)
		if t.Sort == SFP {
			if t.IsLit() {
				return FloatLit(-t.F)
			}
			return mk("fp.neg", SFP, t)
		}
		return ex.arith(token.SUB, IntLit(0), t, i.Type())
	case token.XOR:
		t := x.(*Term)
		if t.Sort == SBV8 {
			return bvBin("bvxor", t, ByteLit(255))
		}
		if t.IsLit() {
			return ex.wrapInt(BigLit(new(big.Int).Not(t.I)), i.Type())
		}
		panic(engineErr("symbolic ^x unsupported"))
	case token.ARROW:
		if ex.thr == nil {
			panic(engineErr("channel receive outside concurrency mode in %s", fr.fn))
		}
		return ex.thr.recv(ex, x.(*ChanV), i.CommaOk, i.Type())
	}
	panic(engineErr("unsupported unop %s", i.Op))
}

func intRange(t types.Type) (lo, hi *big.Int, ok bool) {
	b, isB := t.Underlying().(*types.Basic)
	if !isB || b.Info()&types.IsInteger == 0 {
		return nil, nil, false
	}
	bits := 64
	signed := true
	switch b.Kind() {
	case types.Int8:
		bits = 8
	case types.Int16:
		bits = 16
	case types.Int32:
		bits = 32
	case types.Int64, types.Int:
		bits = 64
	case types.Uint8:
		bits, signed = 8, false
	case types.Uint16:
		bits, signed = 16, false
	case types.Uint32:
		bits, signed = 32, false
	case types.Uint64, types.Uint, types.Uintptr:
		bits, signed = 64, false
	case types.UntypedInt, types.UntypedRune:
		return nil, nil, false
	}
	one := big.NewInt(1)
	if signed {
		hi = new(big.Int).Sub(new(big.Int).Lsh(one, uint(bits-1)), one)
		lo = new(big.Int).Neg(new(big.Int).Lsh(one, uint(bits-1)))
	} else {
		lo = big.NewInt(0)
		hi = new(big.Int).Sub(new(big.Int).Lsh(one, uint(bits)), one)
	}
	return lo, hi, true
}

// wrapInt: concrete results wrap like Go; symbolic results get a range obligation.
func (ex *Exec) wrapInt(t *Term, typ types.Type) *Term {
	lo, hi, ok := intRange(typ)
	if !ok {
		return t
	}
	if t.IsLit() {
		if t.I.Cmp(lo) >= 0 && t.I.Cmp(hi) <= 0 {
			return t
		}
		size := new(big.Int).Add(new(big.Int).Sub(hi, lo), big.NewInt(1))
		v := new(big.Int).Sub(t.I, lo)
		v.Mod(v, size)
		v.Add(v, lo)
		return BigLit(v)
	}
	if !ex.noRange && ex.run.cfg.RangeChecks {
		ex.rangeConds = append(ex.rangeConds, rangeCond{label: "integer result stays in " + typ.String(), site: ex.siteFunc(), c: And(Ge(t, BigLit(lo)), Le(t, BigLit(hi)))})
	}
	return t
}

func (ex *Exec) arith(op token.Token, a, b *Term, typ types.Type) *Term {
	if a.Sort == SBV8 {
		m := map[token.Token]string{token.ADD: "bvadd", token.SUB: "bvsub", token.MUL: "bvmul", token.AND: "bvand", token.OR: "bvor", token.XOR: "bvxor", token.QUO: "bvudiv", token.REM: "bvurem", token.SHL: "bvshl", token.SHR: "bvlshr"}
		if n, ok := m[op]; ok {
			if b.Sort == SInt {
				b = Int2BV(b)
			}
			if op == token.QUO || op == token.REM {
				if ex.Branch(Eq(b, ByteLit(0))) {
					ex.goPanic("integer divide by zero")
				}
			}
			return bvBin(n, a, b)
		}
		if op == token.AND_NOT {
			return bvBin("bvand", a, bvBin("bvxor", b, ByteLit(255)))
		}
	}
	if a.Sort == SFP {
		return fpArith(op, a, b)
	}
	var r *Term
	switch op {
	case token.ADD:
		r = Add(a, b)
	case token.SUB:
		r = Sub(a, b)
	case token.MUL:
		r = Mul(a, b)
	case token.QUO, token.REM:
		if ex.Branch(Eq(b, IntLit(0))) {
			ex.goPanic("integer divide by zero")
		}
		if op == token.QUO {
			r = QuoT(a, b)
		} else {
			r = RemT(a, b)
		}
	case token.SHL, token.SHR:
		if b.Sort == SBV8 {
			b = BV2Int(b)
		}
		if !b.IsLit() {
			panic(engineErr("shift by symbolic amount unsupported"))
		}
		n := uint(b.I.Int64())
		p := BigLit(new(big.Int).Lsh(big.NewInt(1), n))
		if op == token.SHL {
			r = Mul(a, p)
		} else {
			r = DivE(a, p) // floor division == arithmetic shift
		}
	case token.AND, token.OR, token.XOR, token.AND_NOT:
		if a.IsLit() && b.IsLit() {
			z := new(big.Int)
			switch op {
			case token.AND:
				z.And(a.I, b.I)
			case token.OR:
				z.Or(a.I, b.I)
			case token.XOR:
				z.Xor(a.I, b.I)
			case token.AND_NOT:
				z.AndNot(a.I, b.I)
			}
			r = BigLit(z)
		} else if op == token.AND && b.IsLit() && isMask(b.I) {
			r = ModE(a, BigLit(new(big.Int).Add(b.I, big.NewInt(1))))
		} else {
			panic(engineErr("symbolic bitwise %s on Int unsupported (%s)", op, ex.where()))
		}
	default:
		panic(engineErr("unsupported arithmetic op %s", op))
	}
	return ex.wrapInt(r, typ)
}

func isMask(i *big.Int) bool {
	if i.Sign() <= 0 {
		return false
	}
	j := new(big.Int).Add(i, big.NewInt(1))
	return new(big.Int).And(i, j).Sign() == 0
}

func fpArith(op token.Token, a, b *Term) *Term {
	if a.IsLit() && b.IsLit() {
		switch op {
		case token.ADD:
			return FloatLit(a.F + b.F)
		case token.SUB:
			return FloatLit(a.F - b.F)
		case token.MUL:
			return FloatLit(a.F * b.F)
		case token.QUO:
			return FloatLit(a.F / b.F)
		}
	}
	m := map[token.Token]string{token.ADD: "fp.add", token.SUB: "fp.sub", token.MUL: "fp.mul", token.QUO: "fp.div"}
	return mk(m[op], SFP, &Term{Op: "var", Sort: SFP, Name: "RNE"}, a, b)
}

func (ex *Exec) binop(op token.Token, x, y Value, xt types.Type, rt types.Type) Value {
	switch op {
	case token.EQL:
		return ex.equal(x, y)
	case token.NEQ:
		return Not(ex.equal(x, y))
	}
	a, aok := x.(*Term)
	b, bok := y.(*Term)
	if !aok || !bok {
		panic(engineErr("binop %s on %T,%T", op, x, y))
	}
	switch op {
	case token.LSS, token.LEQ, token.GTR, token.GEQ:
		if a.Sort == SSeq {
			if a.IsLit() && b.IsLit() {
				c := strings.Compare(a.S, b.S)
				return BoolLit((op == token.LSS && c < 0) || (op == token.LEQ && c <= 0) || (op == token.GTR && c > 0) || (op == token.GEQ && c >= 0))
			}
			panic(engineErr("symbolic string ordering unsupported"))
		}
		if a.Sort == SFP {
			m := map[token.Token]string{token.LSS: "fp.lt", token.LEQ: "fp.leq", token.GTR: "fp.gt", token.GEQ: "fp.geq"}
			if a.IsLit() && b.IsLit() {
				return BoolLit((op == token.LSS && a.F < b.F) || (op == token.LEQ && a.F <= b.F) || (op == token.GTR && a.F > b.F) || (op == token.GEQ && a.F >= b.F))
			}
			return mk(m[op], SBool, a, b)
		}
		if a.Sort != b.Sort {
			if a.Sort == SBV8 {
				a = BV2Int(a)
			} else {
				b = BV2Int(b)
			}
		}
		switch op {
		case token.LSS:
			return Lt(a, b)
		case token.LEQ:
			return Le(a, b)
		case token.GTR:
			return Gt(a, b)
		default:
			return Ge(a, b)
		}
	case token.ADD:
		if a.Sort == SSeq {
			return SeqConcat(a, b)
		}
	case token.LAND:
		return And(a, b)
	case token.LOR:
		return Or(a, b)
	}
	if a.Sort == SBool {
		switch op {
		case token.AND:
			return And(a, b)
		case token.OR:
			return Or(a, b)
		}
	}
	return ex.arith(op, a, b, rt)
}

// equal implements Go == on any comparable values.
func (ex *Exec) equal(x, y Value) *Term {
	switch a := x.(type) {
	case *Term:
		b, ok := y.(*Term)
		if !ok {
			panic(engineErr("== on *Term and %T", y))
		}
		if a.Sort != b.Sort {
			if a.Sort == SBV8 && b.Sort == SInt {
				return Eq(BV2Int(a), b)
			}
			if a.Sort == SInt && b.Sort == SBV8 {
				return Eq(a, BV2Int(b))
			}
		}
		if a.Sort == SFP {
			if a.IsLit() && b.IsLit() {
				return BoolLit(a.F == b.F)
			}
			return mk("fp.eq", SBool, a, b)
		}
		return Eq(a, b)
	case Ptr:
		return BoolLit(ptrEq(a, y.(Ptr)))
	case TimeV:
		return Eq(a.NS, y.(TimeV).NS)
	case *StructV:
		b := y.(*StructV)
		cs := make([]*Term, len(a.Fields))
		for i := range a.Fields {
			cs[i] = ex.equal(a.Fields[i], b.Fields[i])
		}
		return And(cs...)
	case *ArrayV:
		b := y.(*ArrayV)
		cs := make([]*Term, len(a.Elems))
		for i := range a.Elems {
			cs[i] = ex.equal(a.Elems[i], b.Elems[i])
		}
		return And(cs...)
	case Iface:
		b, ok := y.(Iface)
		if !ok {
			if aj, ok2 := y.(AnyJSON); ok2 {
				if a.T == nil {
					return Eq(aj.Tag, IntLit(0))
				}
			}
			panic(engineErr("== iface vs %T", y))
		}
		if a.T == nil || b.T == nil {
			return BoolLit(a.T == nil && b.T == nil)
		}
		if !types.Identical(a.T, b.T) {
			return tFalse
		}
		return ex.equal(a.V, b.V)
	case AnyJSON:
		if b, ok := y.(Iface); ok && b.T == nil {
			return Eq(a.Tag, IntLit(0))
		}
		panic(engineErr("== on AnyJSON unsupported"))
	case SliceV: // only slice == nil
		b := y.(SliceV)
		if b.Arr == nil {
			return BoolLit(a.Arr == nil)
		}
		if a.Arr == nil {
			return BoolLit(b.Arr == nil)
		}
	case BytesV:
		if b, ok := y.(SliceV); ok && b.Arr == nil {
			return tFalse
		}
	case *MapV:
		b := y.(*MapV)
		return BoolLit(a == b)
	case *Closure:
		b := y.(*Closure)
		if a == nil || b == nil {
			return BoolLit(a == nil && b == nil)
		}
	case *ChanV:
		return BoolLit(a == y.(*ChanV))
	case *Opaque:
		b, ok := y.(*Opaque)
		return BoolLit(ok && a == b)
	}
	panic(engineErr("== unsupported on %T / %T", x, y))
}

func (ex *Exec) indexAddr(fr *Frame, i *ssa.IndexAddr) Value {
	x := ex.get(fr, i.X)
	idx := ex.get(fr, i.Index).(*Term)
	if idx.Sort == SBV8 {
		idx = BV2Int(idx)
	}
	switch s := x.(type) {
	case SliceV:
		k := ex.boundedIndex(idx, s.Len)
		return s.elemPtr(k)
	case Ptr: // pointer to array
		if s.Obj == nil {
			ex.goPanic("nil pointer dereference (array index)")
		}
		arr := (*s.slot()).(*ArrayV)
		k := ex.boundedIndex(idx, len(arr.Elems))
		return s.child(k)
	case BytesV:
		panic(engineErr("IndexAddr on immutable symbolic []byte (%s)", ex.where()))
	}
	panic(engineErr("IndexAddr on %T", x))
}

// boundedIndex: bounds obligation, then fork over the feasible concrete indices.
func (ex *Exec) boundedIndex(idx *Term, n int) int {
	if idx.IsLit() {
		k := idx.I.Int64()
		if k < 0 || k >= int64(n) {
			ex.goPanic(fmt.Sprintf("index out of range [%d] with length %d", k, n))
		}
		return int(k)
	}
	ex.Oblige("panic", "index in range", And(Ge(idx, IntLit(0)), Lt(idx, IntLit(int64(n)))))
	conds := make([]*Term, n)
	for k := 0; k < n; k++ {
		conds[k] = Eq(idx, IntLit(int64(k)))
	}
	return ex.ChooseFeasible(conds)
}

func (ex *Exec) index(fr *Frame, i *ssa.Index) Value {
	x := ex.get(fr, i.X)
	idx := ex.get(fr, i.Index).(*Term)
	if idx.Sort == SBV8 {
		idx = BV2Int(idx)
	}
	switch s := x.(type) {
	case *ArrayV:
		k := ex.boundedIndex(idx, len(s.Elems))
		return copyVal(s.Elems[k])
	case *Term: // string index
		return ex.stringIndex(s, idx)
	}
	panic(engineErr("Index on %T", x))
}

func (ex *Exec) stringIndex(s, idx *Term) Value {
	if n, ok := SeqKnownLen(s); ok && idx.IsLit() {
		k := idx.I.Int64()
		if k < 0 || k >= int64(n) {
			ex.goPanic(fmt.Sprintf("string index out of range [%d] with length %d", k, n))
		}
	} else {
		ex.Oblige("panic", "string index in range", And(Ge(idx, IntLit(0)), Lt(idx, SeqLen(s))))
	}
	return SeqNth(s, idx)
}

func (ex *Exec) lookup(fr *Frame, i *ssa.Lookup) Value {
	x := ex.get(fr, i.X)
	k := ex.get(fr, i.Index)
	if s, ok := x.(*Term); ok { // string[i]
		idx := k.(*Term)
		if idx.Sort == SBV8 {
			idx = BV2Int(idx)
		}
		return ex.stringIndex(s, idx)
	}
	m := x.(*MapV)
	vt := i.X.Type().Underlying().(*types.Map).Elem()
	v, found := ex.mapGet(m, k)
	if !found {
		v = zeroValue(vt)
	}
	if i.CommaOk {
		return Tuple{copyVal(v), BoolLit(found)}
	}
	return copyVal(v)
}

func (ex *Exec) keyEq(a, b Value) bool {
	return ex.Branch(ex.equal(a, b))
}

func (ex *Exec) mapGet(m *MapV, k Value) (Value, bool) {
	if m == nil {
		return nil, false
	}
	for _, e := range m.Entries {
		if ex.keyEq(e.K, k) {
			return e.V, true
		}
	}
	return nil, false
}

func (ex *Exec) mapSet(m *MapV, k, v Value) {
	for i, e := range m.Entries {
		if ex.keyEq(e.K, k) {
			m.Entries[i].V = v
			return
		}
	}
	m.Entries = append(m.Entries, MapEntry{K: k, V: v})
}

func (ex *Exec) mapDelete(m *MapV, k Value) {
	if m == nil {
		return
	}
	for i, e := range m.Entries {
		if ex.keyEq(e.K, k) {
			m.Entries = append(append([]MapEntry{}, m.Entries[:i]...), m.Entries[i+1:]...)
			return
		}
	}
}

func (ex *Exec) slice(fr *Frame, i *ssa.Slice) Value {
	x := ex.get(fr, i.X)
	var lo, hi, max *Term
	if i.Low != nil {
		lo = ex.get(fr, i.Low).(*Term)
	}
	if i.High != nil {
		hi = ex.get(fr, i.High).(*Term)
	}
	if i.Max != nil {
		max = ex.get(fr, i.Max).(*Term)
	}
	switch s := x.(type) {
	case *Term: // string
		return ex.sliceSeq(s, lo, hi)
	case BytesV:
		return BytesV{T: ex.sliceSeq(s.T, lo, hi)}
	case SliceV:
		l, h, m := 0, s.Len, s.Cap
		if lo != nil {
			l = ex.concreteInt(lo, "slice low")
		}
		if hi != nil {
			h = ex.concreteInt(hi, "slice high")
		}
		if max != nil {
			m = ex.concreteInt(max, "slice max")
		}
		if l < 0 || h < l || h > s.Cap || m > s.Cap || h > m {
			ex.goPanic(fmt.Sprintf("slice bounds out of range [%d:%d] with capacity %d", l, h, s.Cap))
		}
		if s.Arr == nil {
			return SliceV{}
		}
		return SliceV{Arr: s.Arr, Off: s.Off + l, Len: h - l, Cap: m - l}
	case Ptr: // pointer to array
		if s.Obj == nil {
			ex.goPanic("nil pointer dereference (slice of array pointer)")
		}
		arr := (*s.slot()).(*ArrayV)
		n := len(arr.Elems)
		l, h := 0, n
		if lo != nil {
			l = ex.concreteInt(lo, "slice low")
		}
		if hi != nil {
			h = ex.concreteInt(hi, "slice high")
		}
		if l < 0 || h < l || h > n {
			ex.goPanic("slice bounds out of range")
		}
		// the array must live in its own object for slicing; wrap when it is the root
		if len(s.Path) == 0 {
			return SliceV{Arr: s.Obj, Off: l, Len: h - l, Cap: n - l}
		}
		holder := ex.newObj(arr, nil) // aliasing the same *ArrayV keeps writes shared
		return SliceV{Arr: holder, Off: l, Len: h - l, Cap: n - l}
	}
	panic(engineErr("Slice on %T", x))
}

func (ex *Exec) sliceSeq(s, lo, hi *Term) *Term {
	n := SeqLen(s)
	if lo == nil {
		lo = IntLit(0)
	}
	if hi == nil {
		hi = n
	}
	ok := And(Ge(lo, IntLit(0)), Le(lo, hi), Le(hi, n))
	if ok.IsLit() {
		if !ok.B {
			ex.goPanic("slice bounds out of range (string)")
		}
	} else {
		ex.Oblige("panic", "slice bounds in range", ok)
	}
	return SeqExtract(s, lo, Sub(hi, lo))
}

func (ex *Exec) convert(v Value, from, to types.Type) Value {
	fu, tu := from.Underlying(), to.Underlying()
	switch t := v.(type) {
	case *Term:
		tb, tIsBasic := tu.(*types.Basic)
		fb, fIsBasic := fu.(*types.Basic)
		switch {
		case t.Sort == SSeq:
			if tIsBasic && tb.Info()&types.IsString != 0 {
				return t
			}
			if sl, ok := tu.(*types.Slice); ok {
				eb := sl.Elem().Underlying().(*types.Basic)
				if eb.Kind() == types.Uint8 {
					if bs, ok := seqBytes(t); ok {
						return ex.newByteSlice(bs)
					}
					return BytesV{T: t}
				}
				if eb.Kind() == types.Int32 { // []rune(s)
					if t.IsLit() {
						rs := []rune(t.S)
						arr := &ArrayV{Elems: make([]Value, len(rs))}
						for k, r := range rs {
							arr.Elems[k] = IntLit(int64(r))
						}
						return SliceV{Arr: ex.newObj(arr, nil), Len: len(rs), Cap: len(rs)}
					}
					// symbolic bytes: treat each byte as one rune, valid only for ASCII (assumed and recorded)
					if bs, ok := seqBytes(t); ok {
						arr := &ArrayV{Elems: make([]Value, len(bs))}
						for k, b := range bs {
							ex.assume(Lt(BV2Int(b), IntLit(128)))
							arr.Elems[k] = BV2Int(b)
						}
						ex.run.note("[]rune(s) on symbolic bytes: restricted to ASCII")
						return SliceV{Arr: ex.newObj(arr, nil), Len: len(bs), Cap: len(bs)}
					}
				}
			}
		case t.Sort == SInt || t.Sort == SBV8:
			if tIsBasic && tb.Info()&types.IsString != 0 { // string(rune)
				if t.Sort == SBV8 {
					t = BV2Int(t)
				}
				if t.IsLit() {
					return StrLit(string(rune(t.I.Int64())))
				}
				ex.assume(And(Ge(t, IntLit(0)), Lt(t, IntLit(128))))
				ex.run.note("string(rune) on symbolic rune: restricted to ASCII")
				return SeqUnit(Int2BV(t))
			}
			if tIsBasic && tb.Info()&types.IsInteger != 0 {
				if tb.Kind() == types.Uint8 {
					if t.Sort == SBV8 {
						return t
					}
					return Int2BV(t)
				}
				if t.Sort == SBV8 {
					return BV2Int(t)
				}
				if fIsBasic && fb.Info()&types.IsInteger != 0 {
					lo, hi, ok := intRange(to)
					if ok && t.IsLit() {
						return ex.wrapInt(t, to)
					}
					flo, fhi, fok := intRange(from)
					if ok && fok && flo.Cmp(lo) >= 0 && fhi.Cmp(hi) <= 0 {
						return t // widening
					}
					return ex.wrapInt(t, to) // narrowing: obligation that the value fits
				}
				return t
			}
			if tIsBasic && tb.Info()&types.IsFloat != 0 {
				if t.Sort == SBV8 {
					t = BV2Int(t)
				}
				if t.IsLit() {
					f, _ := new(big.Float).SetInt(t.I).Float64()
					return FloatLit(f)
				}
				return mk("to_fp_int", SFP, t)
			}
		case t.Sort == SFP:
			if tIsBasic && tb.Info()&types.IsFloat != 0 {
				return t
			}
			if tIsBasic && tb.Info()&types.IsInteger != 0 {
				if t.IsLit() {
					bf := new(big.Float).SetFloat64(t.F)
					bi, _ := bf.Int(nil)
					return ex.wrapInt(BigLit(bi), to)
				}
				if t.Op == "to_fp_int" {
					// an integer below 2^53 in magnitude converted to float64 and back: exact
					return ex.wrapInt(t.Args[0], to)
				}
				// float→int of a symbolic float: result unconstrained within type (Go: implementation-defined when out of range)
				r := ex.fresh("f2i", SInt, "env")
				lo, hi, _ := intRange(to)
				ex.assume(And(Ge(r, BigLit(lo)), Le(r, BigLit(hi))))
				ex.run.note("float64→int conversion of a symbolic float is left unconstrained")
				return r
			}
		case t.Sort == SBool:
			return t
		}
	case SliceV:
		if tb, ok := tu.(*types.Basic); ok && tb.Info()&types.IsString != 0 {
			// string([]byte) or string([]rune)
			et := fu.(*types.Slice).Elem().Underlying().(*types.Basic)
			parts := make([]*Term, t.Len)
			for k := 0; k < t.Len; k++ {
				e := t.get(k).(*Term)
				if et.Kind() == types.Uint8 {
					parts[k] = SeqUnit(e)
				} else {
					if e.IsLit() {
						parts[k] = StrLit(string(rune(e.I.Int64())))
					} else {
						ex.assume(And(Ge(e, IntLit(0)), Lt(e, IntLit(128))))
						parts[k] = SeqUnit(Int2BV(e))
					}
				}
			}
			return SeqConcat(parts...)
		}
		return t
	case BytesV:
		if tb, ok := tu.(*types.Basic); ok && tb.Info()&types.IsString != 0 {
			return t.T
		}
		return t
	default:
		return v
	}
	panic(engineErr("unsupported conversion %s -> %s (%T)", from, to, v))
}

func (ex *Exec) newByteSlice(bs []*Term) SliceV {
	arr := &ArrayV{Elems: make([]Value, len(bs))}
	for k, b := range bs {
		arr.Elems[k] = b
	}
	return SliceV{Arr: ex.newObj(arr, nil), Len: len(bs), Cap: len(bs)}
}

// bytesTerm converts any []byte representation to a Seq term.
func (ex *Exec) bytesTerm(v Value) *Term {
	switch b := v.(type) {
	case BytesV:
		return b.T
	case SliceV:
		parts := make([]*Term, b.Len)
		for k := 0; k < b.Len; k++ {
			parts[k] = SeqUnit(b.get(k).(*Term))
		}
		return SeqConcat(parts...)
	case *Term:
		return b
	}
	panic(engineErr("bytesTerm on %T", v))
}

// ---------- type assertions ----------

func (ex *Exec) implements(dyn types.Type, iface *types.Interface) bool {
	return types.Implements(dyn, iface)
}

func (ex *Exec) typeAssert(fr *Frame, i *ssa.TypeAssert) Value {
	x := ex.get(fr, i.X)
	if aj, ok := x.(AnyJSON); ok {
		return ex.typeAssertJSON(aj, i)
	}
	v, ok := x.(Iface)
	if !ok {
		panic(engineErr("TypeAssert on %T", x))
	}
	var success bool
	var res Value
	if v.T != nil {
		if it, isI := i.AssertedType.Underlying().(*types.Interface); isI {
			if op, isOp := v.V.(*Opaque); isOp {
				success = opaqueImplements(op, i.AssertedType)
			} else {
				success = ex.implements(v.T, it)
			}
			res = v
		} else {
			success = types.Identical(v.T, i.AssertedType)
			res = v.V
		}
	}
	if i.CommaOk {
		if !success {
			return Tuple{zeroValue(i.AssertedType), tFalse}
		}
		return Tuple{res, tTrue}
	}
	if !success {
		dyn := "nil"
		if v.T != nil {
			dyn = v.T.String()
		}
		ex.goPanic(fmt.Sprintf("interface conversion: interface is %s, not %s", dyn, i.AssertedType))
	}
	return res
}

// ---------- ranges ----------

type rangeIter struct {
	m    *MapV
	keys []MapEntry
	str  *Term
	pos  int
}

func (ex *Exec) makeRange(x Value) Value {
	switch v := x.(type) {
	case *MapV:
		it := &rangeIter{m: v}
		if v != nil {
			it.keys = append(it.keys, v.Entries...)
		}
		return it
	case *Term:
		if !v.IsLit() {
			if _, ok := seqBytes(v); !ok {
				panic(engineErr("range over symbolic-length string unsupported (%s)", ex.where()))
			}
		}
		return &rangeIter{str: v}
	}
	panic(engineErr("range over %T", x))
}

func (ex *Exec) rangeNext(it *rangeIter, n *ssa.Next) Value {
	if n.IsString {
		if it.str.IsLit() {
			s := it.str.S
			if it.pos >= len(s) {
				return Tuple{tFalse, IntLit(0), IntLit(0)}
			}
			for k, r := range s[it.pos:] {
				_ = k
				p := it.pos
				it.pos += len(string(r))
				if r == 0xFFFD {
					it.pos = p + 1
				}
				return Tuple{tTrue, IntLit(int64(p)), IntLit(int64(r))}
			}
		}
		bs, _ := seqBytes(it.str)
		if it.pos >= len(bs) {
			return Tuple{tFalse, IntLit(0), IntLit(0)}
		}
		b := bs[it.pos]
		ex.assume(Lt(BV2Int(b), IntLit(128)))
		ex.run.note("range over symbolic string: restricted to ASCII")
		it.pos++
		return Tuple{tTrue, IntLit(int64(it.pos - 1)), BV2Int(b)}
	}
	// Go's map iteration order is unspecified; the engine uses insertion order.
	for it.pos < len(it.keys) {
		e := it.keys[it.pos]
		it.pos++
		// skip entries deleted during iteration
		cur, ok := ex.mapGetNoFork(it.m, e.K)
		if !ok {
			continue
		}
		return Tuple{tTrue, e.K, copyVal(cur)}
	}
	tup := n.Type().(*types.Tuple)
	zv := func(t types.Type) Value {
		if b, ok := t.(*types.Basic); ok && b.Kind() == types.Invalid {
			return nil // component not used by the range statement
		}
		return zeroValue(t)
	}
	return Tuple{tFalse, zv(tup.At(1).Type()), zv(tup.At(2).Type())}
}

func (ex *Exec) mapGetNoFork(m *MapV, k Value) (Value, bool) {
	for _, e := range m.Entries {
		if t := ex.equal(e.K, k); t.IsLit() && t.B {
			return e.V, true
		}
	}
	// fall back to identity on symbolic keys
	for _, e := range m.Entries {
		if showValue(e.K) == showValue(k) {
			return e.V, true
		}
	}
	return nil, false
}

// ---------- calls ----------

func (ex *Exec) doCall(fr *Frame, c *ssa.CallCommon) Value {
	args := make([]Value, 0, len(c.Args)+1)
	if c.IsInvoke() {
		recv := ex.get(fr, c.Value)
		for _, a := range c.Args {
			args = append(args, ex.get(fr, a))
		}
		return ex.invoke(recv, c.Method, args)
	}
	for _, a := range c.Args {
		args = append(args, ex.get(fr, a))
	}
	if b, ok := c.Value.(*ssa.Builtin); ok {
		return ex.builtin(b, c, args)
	}
	if fn := c.StaticCallee(); fn != nil {
		var binds []Value
		if mc, ok := c.Value.(*ssa.MakeClosure); ok {
			for _, bnd := range mc.Bindings {
				binds = append(binds, ex.get(fr, bnd))
			}
		}
		return ex.callFunction(fn, args, binds)
	}
	return ex.callValue(ex.get(fr, c.Value), args)
}

func (ex *Exec) callValue(fv Value, args []Value) Value {
	cl, ok := fv.(*Closure)
	if !ok {
		panic(engineErr("call of non-function %T", fv))
	}
	if cl == nil {
		ex.goPanic("call of nil function")
	}
	if cl.Host != nil {
		return cl.Host(ex, args)
	}
	if cl.Fn == nil {
		panic(engineErr("call of builtin value %s", cl.Name))
	}
	return ex.callFunction(cl.Fn, args, cl.Binds)
}

// invoke: dynamic dispatch of an interface method.
func (ex *Exec) invoke(recv Value, m *types.Func, args []Value) Value {
	if aj, ok := recv.(AnyJSON); ok {
		_ = aj
		panic(engineErr("method call on AnyJSON"))
	}
	iv, ok := recv.(Iface)
	if !ok {
		panic(engineErr("invoke %s on %T", m.Name(), recv))
	}
	if iv.T == nil {
		ex.goPanic("nil pointer dereference (method " + m.Name() + " on nil interface)")
	}
	if op, ok := iv.V.(*Opaque); ok {
		if h, ok := opaqueMethods[op.Kind+"."+m.Name()]; ok {
			ex.intrUsed["("+op.Kind+")."+m.Name()] = true
			return h(ex, op, args)
		}
		if strings.HasPrefix(op.Kind, "libval:") && m.Name() == "Error" {
			msgs := map[string]string{"context.DeadlineExceeded": "context deadline exceeded", "context.Canceled": "context canceled", "io.EOF": "EOF",
				"io.ErrUnexpectedEOF": "unexpected EOF", "net/http.ErrNoCookie": "http: named cookie not present", "net/http.ErrUseLastResponse": "net/http: use last response", "net/http.ErrNoLocation": "http: no Location header in response"}
			if msg, ok := msgs[strings.TrimPrefix(op.Kind, "libval:")]; ok {
				return StrLit(msg)
			}
		}
		if strings.HasPrefix(op.Kind, "libval:") && (m.Name() == "Timeout" || m.Name() == "Temporary") {
			return BoolLit(op.Kind == "libval:context.DeadlineExceeded")
		}
		panic(engineErr("unsupported method %s on opaque %s [%s]", m.Name(), op.Kind, ex.where()))
	}
	if pp, ok := iv.V.(Ptr); ok && pp.Obj != nil {
		// a pointer to an abstract library object (e.g. *chi.Mux behind chi.Router)
		if op, ok := (*pp.slot()).(*Opaque); ok {
			if h, ok := opaqueMethods[op.Kind+"."+m.Name()]; ok {
				ex.intrUsed["("+op.Kind+")."+m.Name()] = true
				return h(ex, op, args)
			}
		}
	}
	sel := ex.eng.prog.MethodSets.MethodSet(iv.T).Lookup(m.Pkg(), m.Name())
	if sel == nil {
		panic(engineErr("method %s not found on %s", m.Name(), iv.T))
	}
	fn := ex.eng.prog.MethodValue(sel)
	if fn == nil {
		panic(engineErr("abstract method %s on %s", m.Name(), iv.T))
	}
	return ex.callFunction(fn, append([]Value{iv.V}, args...), nil)
}

// callMethod calls a named method on a value with known static type (used by intrinsics).
func (ex *Exec) callMethod(recvT types.Type, recv Value, name string, args ...Value) (Value, bool) {
	ms := ex.eng.prog.MethodSets.MethodSet(recvT)
	for k := 0; k < ms.Len(); k++ {
		sel := ms.At(k)
		if sel.Obj().Name() == name {
			fn := ex.eng.prog.MethodValue(sel)
			if fn == nil {
				return nil, false
			}
			return ex.callFunction(fn, append([]Value{recv}, args...), nil), true
		}
	}
	return nil, false
}

func (ex *Exec) builtin(b *ssa.Builtin, c *ssa.CallCommon, args []Value) Value {
	switch b.Name() {
	case "len":
		switch x := args[0].(type) {
		case *Term:
			return SeqLen(x)
		case SliceV:
			return IntLit(int64(x.Len))
		case BytesV:
			return SeqLen(x.T)
		case *MapV:
			if x == nil {
				return IntLit(0)
			}
			ex.mapDistinctKeys(x)
			return IntLit(int64(len(x.Entries)))
		case *ArrayV:
			return IntLit(int64(len(x.Elems)))
		case Ptr:
			return IntLit(int64(len((*x.slot()).(*ArrayV).Elems)))
		case *ChanV:
			return IntLit(int64(len(x.Buf)))
		}
	case "cap":
		switch x := args[0].(type) {
		case SliceV:
			return IntLit(int64(x.Cap))
		case BytesV:
			return SeqLen(x.T)
		}
	case "append":
		return ex.doAppend(args[0], args[1], c.Args[0].Type())
	case "copy":
		dst := args[0].(SliceV)
		var n int
		switch src := args[1].(type) {
		case SliceV:
			n = min(dst.Len, src.Len)
			tmp := make([]Value, n)
			for k := 0; k < n; k++ {
				tmp[k] = copyVal(src.get(k))
			}
			if n > 0 {
				ex.writeCheck(dst.Arr, "copy")
			}
			for k := 0; k < n; k++ {
				dst.set(k, tmp[k])
			}
		default:
			bs, ok := seqBytes(ex.bytesTerm(src))
			if !ok {
				panic(engineErr("copy from symbolic-length bytes"))
			}
			n = min(dst.Len, len(bs))
			if n > 0 {
				ex.writeCheck(dst.Arr, "copy")
			}
			for k := 0; k < n; k++ {
				dst.set(k, bs[k])
			}
		}
		return IntLit(int64(n))
	case "delete":
		m := args[0].(*MapV)
		if m != nil {
			ex.mapLabelCheck(m)
		}
		ex.mapDelete(m, args[1])
		return nil
	case "panic":
		ex.goPanic("explicit panic: " + showValue(args[0]))
	case "recover":
		return Iface{}
	case "close":
		ch := args[0].(*ChanV)
		if ch == nil {
			ex.goPanic("close of nil channel")
		}
		if ch.Closed {
			ex.goPanic("close of closed channel")
		}
		ch.Closed = true
		if ex.thr != nil {
			ex.thr.syncPoint(ex, "close")
		}
		return nil
	case "print", "println":
		return nil
	case "ssa:wrapnilchk":
		if p, ok := args[0].(Ptr); ok {
			if p.Obj == nil {
				ex.goPanic("value method called using nil pointer")
			}
			return p
		}
	case "min", "max":
		a, bb := args[0].(*Term), args[1].(*Term)
		if b.Name() == "min" {
			return Ite(Le(a, bb), a, bb)
		}
		return Ite(Ge(a, bb), a, bb)
	}
	panic(engineErr("unsupported builtin %s on %T", b.Name(), args[0]))
}

// mapDistinctKeys: before len(m) all symbolic keys must be decided distinct; entries
// are inserted through keyEq forks so they already are pairwise distinct on this path.
func (ex *Exec) mapDistinctKeys(m *MapV) {}

func (ex *Exec) doAppend(dstV, srcV Value, st types.Type) Value {
	var et types.Type
	if sl, ok := st.Underlying().(*types.Slice); ok {
		et = sl.Elem()
	}
	// append([]byte, string...) and BytesV handling
	var src []Value
	switch s := srcV.(type) {
	case SliceV:
		for k := 0; k < s.Len; k++ {
			src = append(src, copyVal(s.get(k)))
		}
	case *Term:
		bs, ok := seqBytes(s)
		if !ok {
			if d, isB := dstV.(SliceV); isB && d.Len == 0 {
				return BytesV{T: s}
			}
			if d, isB := dstV.(BytesV); isB {
				return BytesV{T: SeqConcat(d.T, s)}
			}
			return BytesV{T: SeqConcat(ex.bytesTerm(dstV), s)}
		}
		for _, b := range bs {
			src = append(src, b)
		}
	case BytesV:
		bs, ok := seqBytes(s.T)
		if !ok {
			return BytesV{T: SeqConcat(ex.bytesTerm(dstV), s.T)}
		}
		for _, b := range bs {
			src = append(src, b)
		}
	default:
		panic(engineErr("append from %T", srcV))
	}
	if d, ok := dstV.(BytesV); ok {
		parts := []*Term{d.T}
		for _, b := range src {
			parts = append(parts, SeqUnit(b.(*Term)))
		}
		return BytesV{T: SeqConcat(parts...)}
	}
	dst := dstV.(SliceV)
	if len(src) == 0 {
		return dst
	}
	if dst.Arr != nil && dst.Len+len(src) <= dst.Cap {
		ex.writeCheck(dst.Arr, "append into spare capacity")
		for k, v := range src {
			dst.Arr.V.(*ArrayV).Elems[dst.Off+dst.Len+k] = v
		}
		return SliceV{Arr: dst.Arr, Off: dst.Off, Len: dst.Len + len(src), Cap: dst.Cap}
	}
	need := dst.Len + len(src)
	ncap := need
	if dst.Cap*2 > ncap {
		ncap = dst.Cap * 2
	}
	arr := &ArrayV{Elems: make([]Value, ncap)}
	for k := 0; k < dst.Len; k++ {
		arr.Elems[k] = copyVal(dst.get(k))
	}
	for k, v := range src {
		arr.Elems[dst.Len+k] = v
	}
	for k := need; k < ncap; k++ {
		if et == nil {
			panic(engineErr("append: unknown element type"))
		}
		arr.Elems[k] = zeroValue(et)
	}
	return SliceV{Arr: ex.newObj(arr, nil), Off: 0, Len: need, Cap: ncap}
}

// ---------- frame (C20) and race hooks ----------

func (ex *Exec) writeCheck(o *Object, what string) {
	if o.Label != "" && ex.ghost["frame.on"] != nil {
		ex.frameViolation(o, what)
	}
	if ex.thr != nil {
		ex.thr.access(ex, o, true)
	}
}
func (ex *Exec) readCheck(o *Object) {
	if ex.thr != nil {
		ex.thr.access(ex, o, false)
	}
}
func (ex *Exec) mapLabelCheck(m *MapV) {
	if m.Label != "" && ex.ghost["frame.on"] != nil {
		ex.Oblige("frame", "write to "+m.Label+" map", tFalse)
	}
}
func (ex *Exec) frameViolation(o *Object, what string) {
	name := o.Name
	if name == "" {
		name = o.Label
	}
	if ex.thr != nil && ex.thr.holdsInstanceLock(ex) {
		return
	}
	// continue after recording: a frame violation does not stop the path
	site := ex.siteFunc()
	r, model := ex.sol.CheckWith(tTrue, ex.modelTerms())
	if r == "sat" {
		ex.run.obligation("frame", what+" to "+o.Label+" object "+shortFn(name), site, "violated", model, ex)
	}
}
