package main

// crypto/rand, math/big (as used by NewDeviceCode / NewUserCode) and a few further small models.

import (
	"go/types"

	"golang.org/x/tools/go/ssa"
)

func init() {
	reg("crypto/rand.Read", func(ex *Exec, fn *ssa.Function, a []Value) Value {
		switch s := a[0].(type) {
		case SliceV:
			for k := 0; k < s.Len; k++ {
				s.set(k, ex.fresh("rand.byte", SBV8, "env"))
			}
			return Tuple{IntLit(int64(s.Len)), Iface{}}
		}
		panic(engineErr("crypto/rand.Read into %T", a[0]))
	})
	reg("bytes.TrimSpace", func(ex *Exec, fn *ssa.Function, a []Value) Value {
		return BytesV{T: trimSpaceTerm(ex.bytesTerm(a[0]))}
	})
	reg("strings.TrimSpace", func(ex *Exec, fn *ssa.Function, a []Value) Value {
		return trimSpaceTerm(a[0].(*Term))
	})
	reg("math/big.NewInt", func(ex *Exec, fn *ssa.Function, a []Value) Value {
		o := ex.newOpaque("bigint")
		o.Attrs["v"] = a[0]
		return Ptr{Obj: ex.newObj(o, nil)}
	})
	bigOf := func(ex *Exec, v Value) *Opaque {
		p, ok := v.(Ptr)
		if !ok || p.Obj == nil {
			ex.goPanic("nil *big.Int")
		}
		o, ok := (*p.slot()).(*Opaque)
		if !ok || o.Kind != "bigint" {
			panic(engineErr("big.Int: not a modelled value"))
		}
		return o
	}
	reg("(*math/big.Int).Int64", func(ex *Exec, fn *ssa.Function, a []Value) Value { return bigOf(ex, a[0]).Attrs["v"] })
	// crypto/rand.Int(reader, max): uniform in [0, max); panics if max <= 0 (documented)
	reg("crypto/rand.Int", func(ex *Exec, fn *ssa.Function, a []Value) Value {
		max := bigOf(ex, a[1]).Attrs["v"].(*Term)
		if max.IsLit() {
			if max.I.Sign() <= 0 {
				ex.goPanic("crypto/rand: argument to Int is <= 0")
			}
		} else {
			ex.Oblige("panic", "crypto/rand: argument to Int is <= 0", Gt(max, IntLit(0)))
		}
		if ex.Branch(ex.fresh("rand.fail", SBool, "env")) {
			return Tuple{Ptr{}, errorIface(ex, "rand.Int")}
		}
		r := ex.fresh("rand.int", SInt, "env")
		ex.assume(And(Ge(r, IntLit(0)), Lt(r, max)))
		o := ex.newOpaque("bigint")
		o.Attrs["v"] = r
		return Tuple{Ptr{Obj: ex.newObj(o, nil)}, Iface{}}
	})
}

// html/template: the form_post page. Execute is modelled at the data-flow level: the page is an
// uninterpreted function of the redirect URI and the (name, first value) pairs of the non-empty
// parameters, which verifnd.FormAction / FormField read back. Contextual escaping itself
// (html/template's reflection-driven escaper) is outside the encoding.
func init() {
	reg("(*html/template.Template).Execute", func(ex *Exec, fn *ssa.Function, a []Value) Value {
		data, ok := a[2].(Iface)
		if !ok || data.T == nil {
			panic(engineErr("template.Execute: unsupported data"))
		}
		pt, isPtr := data.T.Underlying().(*types.Pointer)
		if !isPtr {
			panic(engineErr("template.Execute: data is not a pointer to a struct"))
		}
		st, isStruct := pt.Elem().Underlying().(*types.Struct)
		if !isStruct {
			panic(engineErr("template.Execute: data is not a pointer to a struct"))
		}
		sv := (*data.V.(Ptr).slot()).(*StructV)
		var uri *Term
		var params *MapV
		for i := 0; i < st.NumFields(); i++ {
			switch st.Field(i).Name() {
			case "RedirectURI":
				uri = sv.Fields[i].(*Term)
			case "Params":
				if iv, ok := sv.Fields[i].(Iface); ok {
					params, _ = iv.V.(*MapV)
				} else {
					params, _ = sv.Fields[i].(*MapV)
				}
			}
		}
		if uri == nil {
			panic(engineErr("template.Execute: only the form_post page is modelled"))
		}
		args := []*Term{uri}
		if params != nil {
			for _, e := range params.Entries {
				vs, ok := e.V.(SliceV)
				if !ok || vs.Len == 0 {
					continue
				}
				args = append(args, e.K.(*Term), vs.get(0).(*Term))
			}
		}
		ex.writeTo(a[1], UF("formpost.html", SSeq, args...))
		return Iface{}
	})
	reg(nd("Fingerprint"), func(ex *Exec, fn *ssa.Function, a []Value) Value { return StrLit("fingerprint") })
	formArgs := func(body Value) ([]*Term, bool) {
		t, ok := body.(*Term)
		if !ok || t.Op != "uf" || t.Name != "uf_"+mangle("formpost.html") {
			return nil, false
		}
		return t.Args, true
	}
	reg(nd("FormAction"), func(ex *Exec, fn *ssa.Function, a []Value) Value {
		args, ok := formArgs(a[0])
		if !ok {
			return Tuple{StrLit(""), tFalse}
		}
		return Tuple{args[0], tTrue}
	})
	reg(nd("FormField"), func(ex *Exec, fn *ssa.Function, a []Value) Value {
		args, ok := formArgs(a[0])
		name := a[1].(*Term)
		if !ok {
			return Tuple{StrLit(""), tFalse}
		}
		for i := 1; i+1 < len(args); i += 2 {
			eq := Eq(args[i], name)
			if eq.IsLit() {
				if eq.B {
					return Tuple{args[i+1], tTrue}
				}
				continue
			}
			panic(engineErr("FormField: symbolic parameter name"))
		}
		return Tuple{StrLit(""), tFalse}
	})
}
