package main

// crypto/rand, math/big (as used by NewDeviceCode / NewUserCode) and a few further small models.

import (
	"golang.org/x/tools/go/ssa"
)

func init() {
	reg("crypto/rand.Read", func(ex *Exec, fn *ssa.Function, a []Value) Value {
		switch s := a[0].(type) {
		case SliceV:
			for k := 0; k < s.Len; k++ {
				s.set(k, ex.fresh("rand.byte", SBV8, "env"))
			}
			return Tuple{IntLit(int64(s.Len)), Iface{}}
		}
		panic(engineErr("crypto/rand.Read into %T", a[0]))
	})
	reg("bytes.TrimSpace", func(ex *Exec, fn *ssa.Function, a []Value) Value {
		return BytesV{T: trimSpaceTerm(ex.bytesTerm(a[0]))}
	})
	reg("strings.TrimSpace", func(ex *Exec, fn *ssa.Function, a []Value) Value {
		return trimSpaceTerm(a[0].(*Term))
	})
	reg("math/big.NewInt", func(ex *Exec, fn *ssa.Function, a []Value) Value {
		o := ex.newOpaque("bigint")
		o.Attrs["v"] = a[0]
		return Ptr{Obj: ex.newObj(o, nil)}
	})
	bigOf := func(ex *Exec, v Value) *Opaque {
		p, ok := v.(Ptr)
		if !ok || p.Obj == nil {
			ex.goPanic("nil *big.Int")
		}
		o, ok := (*p.slot()).(*Opaque)
		if !ok || o.Kind != "bigint" {
			panic(engineErr("big.Int: not a modelled value"))
		}
		return o
	}
	reg("(*math/big.Int).Int64", func(ex *Exec, fn *ssa.Function, a []Value) Value { return bigOf(ex, a[0]).Attrs["v"] })
	// crypto/rand.Int(reader, max): uniform in [0, max); panics if max <= 0 (documented)
	reg("crypto/rand.Int", func(ex *Exec, fn *ssa.Function, a []Value) Value {
		max := bigOf(ex, a[1]).Attrs["v"].(*Term)
		if max.IsLit() {
			if max.I.Sign() <= 0 {
				ex.goPanic("crypto/rand: argument to Int is <= 0")
			}
		} else {
			ex.Oblige("panic", "crypto/rand: argument to Int is <= 0", Gt(max, IntLit(0)))
		}
		if ex.Branch(ex.fresh("rand.fail", SBool, "env")) {
			return Tuple{Ptr{}, errorIface(ex, "rand.Int")}
		}
		r := ex.fresh("rand.int", SInt, "env")
		ex.assume(And(Ge(r, IntLit(0)), Lt(r, max)))
		o := ex.newOpaque("bigint")
		o.Attrs["v"] = r
		return Tuple{Ptr{Obj: ex.newObj(o, nil)}, Iface{}}
	})
}
