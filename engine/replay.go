package main

func replayCase(spec *PropSpec, r *Run, v *Violation, casePath string) (string, string) {
	return "unreplayed", "native replay not built yet"
}

func cmdReplay(args []string) int { return 2 }
