package main

// Native replay: the same harness source, compiled with the native verifnd and run by
// `go test -overlay` against the real code and the real libraries.

import (
	"bufio"
	"bytes"
	"context"
	"encoding/json"
	"fmt"
	"os"
	"os/exec"
	"path/filepath"
	"sort"
	"strings"
	"time"
)

type nativeCase struct {
	ID      string            `json:"id"`
	Harness string            `json:"harness"`
	Draws   map[string]string `json:"draws"`
	Choices []ChoiceRec       `json:"choices"`
	Params  map[string]int    `json:"params"`
}

type nativeAssert struct {
	Label string `json:"label"`
	OK    bool   `json:"ok"`
}

type nativeResult struct {
	ID      string         `json:"id"`
	Harness string         `json:"harness"`
	Asserts []nativeAssert `json:"asserts"`
	Covers  []string       `json:"covers"`
	Panic   string         `json:"panic"`
	Stack   string         `json:"stack"`
	Aborted string         `json:"aborted"`
	Missing []string       `json:"missing"`
	Notes   []string       `json:"notes"`
}

// time.Now() in these packages is redirected to the scripted clock during native runs.
var clockPkgs = []string{"pkg/oidc", "pkg/op", "pkg/client", "pkg/client/rp", "pkg/http", "pkg/crypto", "pkg/client/rs", "pkg/client/tokenexchange"}

func rewriteClock(scratch string, repl map[string]string) error {
	for _, p := range clockPkgs {
		ents, err := os.ReadDir(filepath.Join(repoDir, p))
		if err != nil {
			continue
		}
		for _, e := range ents {
			n := e.Name()
			if e.IsDir() || !strings.HasSuffix(n, ".go") || strings.HasSuffix(n, "_test.go") {
				continue
			}
			src, err := os.ReadFile(filepath.Join(repoDir, p, n))
			if err != nil {
				return err
			}
			if !bytes.Contains(src, []byte("time.Now()")) {
				continue
			}
			out := bytes.ReplaceAll(src, []byte("time.Now()"), []byte("verifndclock.Now()"))
			// insert the import right after the package clause
			idx := bytes.Index(out, []byte("\npackage "))
			start := 0
			if bytes.HasPrefix(out, []byte("package ")) {
				start = 0
			} else if idx >= 0 {
				start = idx + 1
			}
			eol := bytes.IndexByte(out[start:], '\n')
			if eol < 0 {
				continue
			}
			pos := start + eol + 1
			var nb bytes.Buffer
			nb.Write(out[:pos])
			nb.WriteString("import verifndclock \"" + ndPkg + "\"\n")
			nb.Write(out[pos:])
			nb.WriteString("\nvar _ = time.Now\n")
			dst := filepath.Join(scratch, strings.ReplaceAll(p, "/", "_")+"_"+n)
			if err := os.WriteFile(dst, nb.Bytes(), 0o644); err != nil {
				return err
			}
			repl[filepath.Join(repoDir, p, n)] = dst
		}
	}
	return nil
}

var scratchSeq int

// runNative runs the given cases of one package natively.
func runNative(spec *PropSpec, pkg string, cases []nativeCase) (map[string]*nativeResult, string, error) {
	scratchSeq++
	scratch := filepath.Join(verifDir, ".scratch", fmt.Sprintf("replay-%d-%d", os.Getpid(), scratchSeq))
	if err := os.MkdirAll(scratch, 0o755); err != nil {
		return nil, "", err
	}
	if os.Getenv("VERIF_KEEP") == "" {
		defer os.RemoveAll(scratch)
	}
	repl := map[string]string{}
	repl[filepath.Join(repoDir, "internal/verifnd/verifnd.go")] = filepath.Join(verifDir, "verifnd", "native", "verifnd.go")
	var names []string
	seenFile := map[string]bool{}
	pkgName := ""
	for _, h := range spec.Harnesses {
		if h.Pkg != pkg {
			continue
		}
		names = append(names, h.Name)
		for _, f := range h.Files {
			if seenFile[f] {
				continue
			}
			seenFile[f] = true
			name := "zz_verif_" + strings.ReplaceAll(strings.ReplaceAll(f, "/", "_"), ".go", "") + ".go"
			src := filepath.Join(verifDir, "harness", f)
			repl[filepath.Join(repoDir, pkg, name)] = src
			if pkgName == "" {
				b, _ := os.ReadFile(src)
				for _, line := range strings.Split(string(b), "\n") {
					if strings.HasPrefix(line, "package ") {
						pkgName = strings.TrimSpace(strings.TrimPrefix(line, "package "))
						break
					}
				}
			}
		}
	}
	sort.Strings(names)
	var tb strings.Builder
	fmt.Fprintf(&tb, "package %s\n\nimport (\n\t\"testing\"\n\tnd \"%s\"\n)\n\nfunc TestVerifReplay(t *testing.T) {\n\tnd.RunNative(t, map[string]func(){\n", pkgName, ndPkg)
	for _, n := range names {
		fmt.Fprintf(&tb, "\t\t%q: %s,\n", n, n)
	}
	tb.WriteString("\t})\n}\n")
	testFile := filepath.Join(scratch, "replay_test.go")
	os.WriteFile(testFile, []byte(tb.String()), 0o644)
	repl[filepath.Join(repoDir, pkg, "zz_verif_replay_test.go")] = testFile
	if err := rewriteClock(scratch, repl); err != nil {
		return nil, "", err
	}
	ovb, _ := json.Marshal(map[string]interface{}{"Replace": repl})
	ovFile := filepath.Join(scratch, "overlay.json")
	os.WriteFile(ovFile, ovb, 0o644)
	cb, _ := json.Marshal(cases)
	casesFile := filepath.Join(scratch, "cases.json")
	os.WriteFile(casesFile, cb, 0o644)

	ctx, cancel := context.WithTimeout(context.Background(), 10*time.Minute)
	defer cancel()
	cmd := exec.CommandContext(ctx, "go", "test", "-v", "-vet=off", "-count=1", "-overlay", ovFile, "-run", "^TestVerifReplay$", "./"+pkg)
	cmd.Dir = repoDir
	cmd.Env = append(os.Environ(), "GOFLAGS=-mod=mod", "GOPROXY=off", "VERIF_CASES="+casesFile)
	out, err := cmd.CombinedOutput()
	results := map[string]*nativeResult{}
	sc := bufio.NewScanner(bytes.NewReader(out))
	sc.Buffer(make([]byte, 1<<22), 1<<22)
	for sc.Scan() {
		line := sc.Text()
		if i := strings.Index(line, "VERIF-RESULT "); i >= 0 {
			var r nativeResult
			if json.Unmarshal([]byte(line[i+len("VERIF-RESULT "):]), &r) == nil {
				results[r.ID] = &r
			}
		}
	}
	if os.Getenv("VERIF_KEEP") != "" {
		fmt.Fprintln(os.Stderr, "native output:\n"+tail(string(out), 40))
	}
	if len(results) == 0 {
		return results, string(out), fmt.Errorf("native run produced no results (%v)", err)
	}
	if len(results) == 0 && err != nil {
		return results, string(out), fmt.Errorf("native run failed: %v", err)
	}
	return results, string(out), nil
}

func reproduced(v *Violation, r *nativeResult) (bool, string) {
	if r == nil {
		return false, "no native result"
	}
	if r.Aborted != "" {
		return false, "native run aborted: " + r.Aborted
	}
	if v.Class == "assert" {
		for _, a := range r.Asserts {
			if a.Label == v.Label && !a.OK {
				return true, "assertion failed natively"
			}
		}
		if r.Panic != "" {
			return false, "native run panicked instead: " + r.Panic
		}
		return false, "assertion held natively"
	}
	if r.Panic != "" {
		return true, "native panic: " + r.Panic
	}
	for _, a := range r.Asserts {
		if !a.OK {
			return true, "native assertion failed: " + a.Label
		}
	}
	return false, "no panic and no failed assertion natively"
}

func replayCase(spec *PropSpec, r *Run, v *Violation, casePath string) (string, string) {
	cases := []nativeCase{{ID: "cx", Harness: r.harness, Draws: v.Model, Choices: v.Choices, Params: r.params}}
	for i, a := range v.Alts {
		cases = append(cases, nativeCase{ID: fmt.Sprintf("alt%d", i), Harness: r.harness, Draws: a.Model, Choices: a.Choices, Params: r.params})
	}
	res, out, err := runNative(spec, r.spec.Pkg, cases)
	if err != nil {
		return "replay-error", err.Error() + "\n" + tail(out, 30)
	}
	ok, detail := reproduced(v, res["cx"])
	if ok {
		return "reproduced", detail
	}
	for i, a := range v.Alts {
		if ok2, d2 := reproduced(v, res[fmt.Sprintf("alt%d", i)]); ok2 {
			// promote the reproducing model so that the case file on disk replays
			v.Model, v.Choices = a.Model, a.Choices
			rewriteCase(casePath, v)
			return "reproduced", d2 + " (alternative model)"
		}
	}
	return "not-reproduced", detail
}

func rewriteCase(path string, v *Violation) {
	b, err := os.ReadFile(path)
	if err != nil {
		return
	}
	var c caseFile
	if json.Unmarshal(b, &c) != nil {
		return
	}
	c.Draws, c.Choices = v.Model, v.Choices
	nb, _ := json.MarshalIndent(c, "", " ")
	os.WriteFile(path, nb, 0o644)
}

func tail(s string, n int) string {
	lines := strings.Split(strings.TrimRight(s, "\n"), "\n")
	if len(lines) > n {
		lines = lines[len(lines)-n:]
	}
	return strings.Join(lines, "\n")
}

// validateWitnesses: translation validation of the engine — sampled path witnesses are run
// natively; cover labels and assertion outcomes must agree with the symbolic prediction.
func validateWitnesses(spec *PropSpec, r *Run, max int, seed int) (validated int, problems []string) {
	ws := r.witnesses
	if len(ws) == 0 {
		return 0, nil
	}
	sort.Slice(ws, func(i, j int) bool { return fmt.Sprint(ws[i].Decisions) < fmt.Sprint(ws[j].Decisions) })
	// deterministic spread by seed, making sure every cover label is represented (up to 3 witnesses each)
	var pick []int
	have := map[string]int{}
	for i, w := range ws {
		for _, c := range w.Covers {
			if have[c] < 3 {
				have[c]++
				pick = append(pick, i)
				break
			}
		}
	}
	step := len(ws)/max + 1
	for i := seed % step; i < len(ws) && len(pick) < max+len(have)*3; i += step {
		pick = append(pick, i)
	}
	validatedLabel := map[string]bool{}
	tried := map[int]bool{}
	for round := 0; round < 6; round++ {
		if round > 0 {
			// labels still without a validated witness: try further witnesses carrying them (the first
			// ones may have been unrealisable models of uninterpreted library functions)
			pick = nil
			per := map[string]int{}
			for i, w := range ws {
				if tried[i] {
					continue
				}
				for _, c := range w.Covers {
					if !validatedLabel[c] && c != "harness-end" && per[c] < 12*round {
						per[c]++
						pick = append(pick, i)
						break
					}
				}
			}
			if len(pick) == 0 {
				break
			}
		}
		n, probs := r.validateRound(spec, ws, pick, tried, validatedLabel)
		validated += n
		problems = append(problems, probs...)
		missing := false
		for _, c := range r.spec.Covers {
			if !validatedLabel[c] && r.covers[c] != nil {
				missing = true
			}
		}
		if !missing {
			break
		}
	}
	for _, c := range r.spec.Covers {
		if !validatedLabel[c] && r.covers[c] != nil {
			problems = append(problems, fmt.Sprintf("%s: translation validation: no witness of cover point %q agreed with the native run", r.harness, c))
		}
	}
	return validated, problems
}

func (r *Run) validateRound(spec *PropSpec, ws []Witness, pick []int, tried map[int]bool, validatedLabel map[string]bool) (validated int, problems []string) {
	var cases []nativeCase
	idx := map[string]int{}
	for _, i := range pick {
		id := fmt.Sprintf("w%d", i)
		if _, dup := idx[id]; dup {
			continue
		}
		idx[id] = i
		tried[i] = true
		cases = append(cases, nativeCase{ID: id, Harness: r.harness, Draws: ws[i].Model, Choices: ws[i].Choices, Params: r.params})
	}
	res, out, err := runNative(spec, r.spec.Pkg, cases)
	if err != nil {
		return 0, []string{r.harness + ": witness validation could not run: " + err.Error() + "\n" + tail(out, 25)}
	}
	ids := make([]string, 0, len(idx))
	for id := range idx {
		ids = append(ids, id)
	}
	sort.Strings(ids)
	for _, id := range ids {
		i := idx[id]
		nr := res[id]
		w := ws[i]
		if nr == nil {
			problems = append(problems, fmt.Sprintf("%s: witness %s: no native result", r.harness, id))
			continue
		}
		if nr.Aborted != "" {
			r.diverged++ // unrealisable witness (uninterpreted function vs real library): not counted
			continue
		}
		if nr.Panic != "" {
			problems = append(problems, fmt.Sprintf("%s: witness %s panicked natively: %s (inputs %v choices %v)\n%s", r.harness, id, nr.Panic, decodeModel(w.Model), w.Choices, nr.Stack))
			continue
		}
		bad := false
		for _, a := range nr.Asserts {
			if !a.OK {
				// an assertion that the solver discharged for every input fails on a concrete real run: the encoding is wrong
				problems = append(problems, fmt.Sprintf("%s: witness %s: assertion %q fails natively but was discharged symbolically (inputs %v choices %v)", r.harness, id, a.Label, decodeModel(w.Model), w.Choices))
				bad = true
			}
		}
		if bad {
			continue
		}
		if fmt.Sprint(uniqSorted(nr.Covers)) != fmt.Sprint(uniqSorted(withoutEnd(w.Covers))) {
			// the real libraries interpret an uninterpreted function differently from this model: the
			// native run legitimately took another path. Counted, not a failure (DESIGN 3.8).
			r.diverged++
			if os.Getenv("VERIF_DEBUG") != "" {
				fmt.Fprintf(os.Stderr, "diverged: %s %s native=%v symbolic=%v inputs=%v choices=%v\n", r.harness, id, uniqSorted(nr.Covers), uniqSorted(withoutEnd(w.Covers)), decodeModel(w.Model), w.Choices)
			}
			continue
		}
		validated++
		for _, c := range nr.Covers {
			validatedLabel[c] = true
		}
	}
	return validated, problems
}

func withoutEnd(xs []string) []string {
	var out []string
	for _, x := range xs {
		if x != "harness-end" {
			out = append(out, x)
		}
	}
	return out
}

func uniqSorted(xs []string) []string {
	m := map[string]bool{}
	for _, x := range xs {
		m[x] = true
	}
	out := make([]string, 0, len(m))
	for x := range m {
		out = append(out, x)
	}
	sort.Strings(out)
	return out
}

func cmdReplay(args []string) int {
	if len(args) < 2 {
		fmt.Fprintln(os.Stderr, "usage: gosmt replay <Cxx> <case.json>")
		return 2
	}
	spec, err := loadSpec(args[0])
	if err != nil {
		fmt.Fprintln(os.Stderr, err)
		return 2
	}
	b, err := os.ReadFile(args[1])
	if err != nil {
		fmt.Fprintln(os.Stderr, err)
		return 2
	}
	var c caseFile
	if err := json.Unmarshal(b, &c); err != nil {
		fmt.Fprintln(os.Stderr, err)
		return 2
	}
	res, out, err := runNative(spec, c.Pkg, []nativeCase{{ID: "cx", Harness: c.Harness, Draws: c.Draws, Choices: c.Choices, Params: c.Params}})
	if err != nil {
		fmt.Fprintln(os.Stderr, err, "\n", tail(out, 40))
		return 2
	}
	v := &Violation{Class: c.Class, Label: c.Label, Site: c.Site}
	ok, detail := reproduced(v, res["cx"])
	rb, _ := json.MarshalIndent(res["cx"], "", " ")
	fmt.Println(string(rb))
	fmt.Println("inputs:", decodeModel(c.Draws), "choices:", c.Choices)
	if ok {
		fmt.Printf("REPRODUCED property=%s class=%s label=%q site=%s: %s\n", c.Property, c.Class, c.Label, c.Site, detail)
		return 1
	}
	fmt.Printf("not reproduced: %s\n", detail)
	return 0
}
