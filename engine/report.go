package main

import (
	"bufio"
	"encoding/json"
	"fmt"
	"io"
	"os"
	"path/filepath"
	"sort"
	"strings"
	"time"
)

func (r *Run) printSummary(w io.Writer) {
	fmt.Fprintf(w, "== %s: paths=%d ends=%v steps=%d feasQ=%d oblQ=%d unknown=%d solver=%.1fs wall=%.1fs\n", r.harness, r.paths, r.pathEnds, r.steps, r.feasQ, r.oblQ, r.qUnknown, r.solverTime.Seconds(), r.wall.Seconds())
	for _, c := range sortedKeys(r.obl) {
		fmt.Fprintf(w, "   obligations[%s]=%v\n", c, r.obl[c])
	}
	fmt.Fprintf(w, "   covers=%v\n", sortedKeys(r.covers))
	for _, v := range r.sortedViolations() {
		fmt.Fprintf(w, "   CANDIDATE %s | %s | %s  x%d\n      model=%v choices=%v\n      stack=%s\n", v.Class, v.Label, v.Site, v.Count, v.Model, v.Choices, v.Stack)
	}
	for _, e := range dedupe(r.engineErrors) {
		fmt.Fprintf(w, "   ENGINE-ERROR %s\n", e)
	}
	for _, e := range r.inconcl {
		fmt.Fprintf(w, "   INCONCLUSIVE %s\n", e)
	}
	for _, n := range sortedKeys(r.notes) {
		fmt.Fprintf(w, "   note: %s\n", n)
	}
}

// ---------- known findings ----------

type knownEntry struct {
	kind   string // known | fixed
	fields map[string]string
	raw    string
}

func loadKnown() []knownEntry {
	f, err := os.Open(filepath.Join(verifDir, "known_findings.txt"))
	if err != nil {
		return nil
	}
	defer f.Close()
	var out []knownEntry
	sc := bufio.NewScanner(f)
	sc.Buffer(make([]byte, 1<<20), 1<<20)
	for sc.Scan() {
		line := strings.TrimSpace(sc.Text())
		if line == "" || strings.HasPrefix(line, "#") {
			continue
		}
		var kind string
		switch {
		case strings.HasPrefix(line, "known:"):
			kind = "known"
			line = strings.TrimPrefix(line, "known:")
		case strings.HasPrefix(line, "fixed:"):
			kind = "fixed"
			line = strings.TrimPrefix(line, "fixed:")
		default:
			continue
		}
		e := knownEntry{kind: kind, fields: parseKV(line), raw: line}
		out = append(out, e)
	}
	return out
}

// parseKV parses key=value pairs; values may be double-quoted.
func parseKV(s string) map[string]string {
	m := map[string]string{}
	i := 0
	for i < len(s) {
		for i < len(s) && s[i] == ' ' {
			i++
		}
		j := i
		for j < len(s) && s[j] != '=' && s[j] != ' ' {
			j++
		}
		if j >= len(s) || s[j] != '=' {
			i = j + 1
			continue
		}
		key := s[i:j]
		j++
		var val string
		if j < len(s) && s[j] == '"' {
			k := j + 1
			for k < len(s) && s[k] != '"' {
				k++
			}
			val = s[j+1 : k]
			i = k + 1
		} else {
			k := j
			for k < len(s) && s[k] != ' ' {
				k++
			}
			val = s[j:k]
			i = k
		}
		m[key] = val
	}
	return m
}

func matchKnown(ks []knownEntry, prop string, v *Violation) *knownEntry {
	for i := range ks {
		k := &ks[i]
		if k.kind != "known" || k.fields["property"] != prop {
			continue
		}
		if h := k.fields["harness"]; h != "" && h != v.Harness {
			continue
		}
		if c := k.fields["class"]; c != "" && c != v.Class {
			continue
		}
		if s := k.fields["site"]; s != "" && s != v.Site {
			continue
		}
		if l := k.fields["label"]; l != "" && !strings.Contains(v.Label, l) {
			continue
		}
		ok := true
		for key, want := range k.fields {
			if strings.HasPrefix(key, "choice.") {
				found := false
				for _, c := range v.Choices {
					if c.Tag == strings.TrimPrefix(key, "choice.") && fmt.Sprint(c.V) == want {
						found = true
					}
				}
				if !found {
					ok = false
				}
			}
		}
		if ok {
			return k
		}
	}
	return nil
}

// ---------- finishing a check ----------

func finish(id string, spec *PropSpec, tier string, seed int, runs []*Run, eng *Engine, loadT time.Duration, t0 time.Time, noReplay bool) int {
	known := loadKnown()
	exit := 0
	var problems []string
	var violLines []string
	var knownHit []string
	totalViol := 0
	replayed := 0
	var samples []interface{}
	states, transitions := 0, int64(0)
	oblTotal, oblDischarged := 0, 0
	queries := 0
	solverS := 0.0
	funcsSeen := map[string]map[string]string{}
	intr := map[string]bool{}
	notes := map[string]bool{}
	perHarness := []map[string]interface{}{}
	oblByClass := map[string]map[string]int{}
	distinctSites := 0

	os.MkdirAll(filepath.Join(verifDir, "evidence", "replays"), 0o755)

	for _, r := range runs {
		states += r.paths
		transitions += r.steps
		queries += r.feasQ + r.oblQ
		solverS += r.solverTime.Seconds()
		distinctSites += len(r.oblSites)
		for c, m := range r.obl {
			if oblByClass[c] == nil {
				oblByClass[c] = map[string]int{}
			}
			for s, n := range m {
				oblByClass[c][s] += n
				oblTotal += n
				if s == "discharged" || s == "discharged-concrete" {
					oblDischarged += n
				}
			}
		}
		for f := range r.funcs {
			if f.Pkg != nil && isRepoPkg(f.Pkg.Pkg.Path()) || f.Pkg == nil {
				file, h := eng.funcInfo(f)
				if strings.Contains(file, "zz_verif_") || strings.Contains(file, "internal/verifnd") {
					continue
				}
				funcsSeen[shortFn(f.String())] = map[string]string{"file": file, "sha256_8": h}
			}
		}
		for k := range r.intrUsed {
			intr[k] = true
		}
		for k := range r.notes {
			notes[k] = true
		}
		for _, e := range r.engineErrors {
			problems = append(problems, r.harness+": engine error: "+e)
		}
		for _, e := range r.inconcl {
			problems = append(problems, r.harness+": inconclusive: "+e)
		}
		need := append([]string{"harness-end"}, r.spec.Covers...)
		for _, c := range need {
			if r.covers[c] == nil {
				problems = append(problems, fmt.Sprintf("%s: vacuity: cover point %q not reachable", r.harness, c))
			}
		}
		// witnesses: sample + (later) native validation
		ws := r.witnesses
		sort.Slice(ws, func(i, j int) bool { return fmt.Sprint(ws[i].Decisions) < fmt.Sprint(ws[j].Decisions) })
		for i, w := range ws {
			if i >= 3 {
				break
			}
			samples = append(samples, map[string]interface{}{"harness": r.harness, "kind": "path-witness", "inputs": decodeModel(w.Model), "choices": w.Choices})
		}
		if !noReplay && len(r.violations) == 0 && len(r.engineErrors) == 0 {
			maxW := 12
			if tier == "thorough" {
				maxW = 60
			}
			n, probs := validateWitnesses(spec, r, maxW, seed)
			replayed += n
			problems = append(problems, probs...)
			if n == 0 && len(probs) == 0 {
				problems = append(problems, r.harness+": no path witness could be validated natively")
			}
		}
		hv := map[string]interface{}{"harness": r.harness, "paths": r.paths, "path_ends": r.pathEnds, "ssa_instructions": r.steps,
			"feasibility_queries": r.feasQ, "obligation_queries": r.oblQ, "solver_time_s": round2(r.solverTime.Seconds()), "wall_s": round2(r.wall.Seconds()),
			"witnesses_diverged_natively": r.diverged, "covers": sortedKeys(r.covers), "bounds": r.spec.Bounds, "params": r.params, "obligations": r.obl}
		perHarness = append(perHarness, hv)

		for _, v := range r.sortedViolations() {
			if v.Class == "range" {
				problems = append(problems, fmt.Sprintf("%s: inconclusive: integer wrap feasible inside the bound: %s at %s", r.harness, v.Label, v.Site))
				continue
			}
			casePath := writeCase(id, r, v)
			status := "unreplayed"
			detail := ""
			if !noReplay {
				status, detail = replayCase(spec, r, v, casePath)
				replayed++
			}
			sample := map[string]interface{}{"harness": r.harness, "kind": "counterexample", "class": v.Class, "label": v.Label, "site": v.Site,
				"inputs": decodeModel(v.Model), "choices": v.Choices, "replay": status, "paths_hit": v.Count}
			samples = append(samples, sample)
			switch status {
			case "reproduced", "unreplayed":
				if k := matchKnown(known, id, v); k != nil {
					knownHit = append(knownHit, fmt.Sprintf("KNOWN-FINDING: property=%s %s [harness=%s class=%s site=%s]", id, k.fields["what"], v.Harness, v.Class, v.Site))
				} else if status == "reproduced" {
					totalViol++
					violLines = append(violLines, fmt.Sprintf("VIOLATION property=%s replay=%s", id, casePath))
					fmt.Fprintf(os.Stderr, "  violated: harness=%s class=%s label=%q site=%s\n    inputs=%v choices=%v\n", v.Harness, v.Class, v.Label, v.Site, decodeModel(v.Model), v.Choices)
				} else {
					problems = append(problems, fmt.Sprintf("%s: counterexample not replayed (%s | %s | %s)", r.harness, v.Class, v.Label, v.Site))
				}
			default:
				problems = append(problems, fmt.Sprintf("%s: counterexample did not reproduce natively (%s | %s | %s): %s", r.harness, v.Class, v.Label, v.Site, detail))
			}
		}
	}

	for _, l := range knownHit {
		fmt.Println(l)
	}
	for _, l := range violLines {
		fmt.Println(l)
	}
	problems = dedupe(problems)
	if totalViol > 0 {
		exit = 1
	} else if len(problems) > 0 {
		exit = 2
	}
	problems = dedupe(problems)
	for _, p := range problems {
		fmt.Fprintln(os.Stderr, "PROBLEM:", p)
	}

	if len(samples) == 0 {
		samples = append(samples, "no path witness recorded")
	}
	fnames := sortedKeys(funcsSeen)
	ev := map[string]interface{}{
		"property_id": id, "tier": tier, "seed": seed, "level": "model_checking",
		"coverage": map[string]interface{}{
			"states":                        states,
			"transitions":                   transitions,
			"traces_validated_against_impl": replayed,
			"samples":                       samples,
			"evaluations":                   states,
			"distinct_nontrivial":           distinctSites,
			"rule":                          "states = feasible symbolic paths explored (each stands for all inputs satisfying its path condition); distinct_nontrivial = distinct (class,label,site) obligations whose verification condition was posed on some path",
			"obligations":                   oblTotal,
			"discharged":                    oblDischarged,
			"obligations_by_class":          oblByClass,
			"queries":                       queries,
			"solver_time_s":                 round2(solverS),
			"solver":                        "z3 4.8.12 (-in, push/pop), no set-logic; any (error line = inconclusive",
			"functions_encoded":             funcsSeen,
			"functions_encoded_count":       len(fnames),
			"harnesses":                     perHarness,
			"intrinsics_used":               sortedKeys(intr),
			"engine_notes":                  sortedKeys(notes),
			"outside_claim":                 spec.OutsideClaim,
			"known_findings_hit":            knownHit,
			"problems":                      problems,
			"load_s":                        round2(loadT.Seconds()),
			"exhaustive":                    len(problems) == 0,
			"explanation":                   "bounded symbolic execution of the listed repository functions from go/ssa of the current working tree; every assertion, implicit panic site and integer-range side condition on every explored path discharged by the SMT solver",
		},
		"assumptions": spec.Assumptions,
		"wall_s":      round2(time.Since(t0).Seconds()),
		"violations":  totalViol,
	}
	b, _ := json.MarshalIndent(ev, "", " ")
	os.WriteFile(filepath.Join(verifDir, "evidence", id+".json"), b, 0o644)
	fmt.Fprintf(os.Stderr, "%s [%s]: harnesses=%d paths=%d obligations=%d discharged=%d queries=%d solver=%.1fs wall=%.1fs known=%d violations=%d problems=%d exit=%d\n",
		id, tier, len(runs), states, oblTotal, oblDischarged, queries, solverS, time.Since(t0).Seconds(), len(knownHit), totalViol, len(problems), exit)
	return exit
}

func dedupe(xs []string) []string {
	seen := map[string]bool{}
	var out []string
	for _, x := range xs {
		if !seen[x] {
			seen[x] = true
			out = append(out, x)
		}
	}
	return out
}

func round2(f float64) float64 { return float64(int(f*100+0.5)) / 100 }

func decodeModel(m map[string]string) map[string]interface{} {
	out := map[string]interface{}{}
	for k, v := range m {
		switch {
		case strings.HasPrefix(v, "s:"):
			var bs []byte
			fmt.Sscanf(v[2:], "%x", &bs)
			out[k] = string(bs)
		case strings.HasPrefix(v, "i:"), strings.HasPrefix(v, "b:"):
			out[k] = v[2:]
		case v == "t":
			out[k] = true
		case v == "f":
			out[k] = false
		}
	}
	return out
}

type caseFile struct {
	Property string            `json:"property"`
	Harness  string            `json:"harness"`
	Pkg      string            `json:"pkg"`
	Class    string            `json:"class"`
	Label    string            `json:"label"`
	Site     string            `json:"site"`
	Draws    map[string]string `json:"draws"`
	Choices  []ChoiceRec       `json:"choices"`
	Params   map[string]int    `json:"params"`
}

func writeCase(id string, r *Run, v *Violation) string {
	c := caseFile{Property: id, Harness: r.harness, Pkg: r.spec.Pkg, Class: v.Class, Label: v.Label, Site: v.Site, Draws: v.Model, Choices: v.Choices, Params: r.params}
	b, _ := json.MarshalIndent(c, "", " ")
	h := fnv(v.Key() + r.harness)
	p := filepath.Join(verifDir, "evidence", "replays", fmt.Sprintf("%s-%s-%08x.json", id, r.harness, h))
	os.WriteFile(p, b, 0o644)
	return p
}

func fnv(s string) uint32 {
	h := uint32(2166136261)
	for i := 0; i < len(s); i++ {
		h ^= uint32(s[i])
		h *= 16777619
	}
	return h
}
