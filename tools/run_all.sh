#!/bin/bash
# runs every registered quick check in turn on the current /repo and prints one line per property
cd /verif
for id in "$@"; do
  s=$(date +%s)
  timeout 1500 ./check $id --tier quick > .scratch/all_$id.log 2>&1; rc=$?
  e=$(date +%s)
  echo "$id exit=$rc $((e-s))s $(grep -a 'quick\]:' .scratch/all_$id.log | cut -c1-160)"
  grep -a "^PROBLEM\|^VIOLATION" .scratch/all_$id.log | cut -c1-300 | head -5
done
