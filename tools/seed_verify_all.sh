#!/bin/bash
# usage: seed_verify_all.sh C15-1 C15-2 ...   -- confirms each seeded change (see seed_verify.sh), one line per seed
cd "$(dirname "$0")/.."
for s in "$@"; do
  r=$(tools/seed_verify.sh seeded/$s/patch.diff seeded/$s/demo_test.go 2>&1 | grep -v conda | tail -3 | tr '\n' ' ')
  echo "$s: $r"
done
