#!/bin/bash
# usage: seed_all.sh <seed-id>...   e.g. seed_all.sh C01-1 C01-2
# applies each seeded change to /repo, runs the quick check of its property, records the outcome in
# seeded/<id>/result.txt, and reverts /repo. Nothing else may use /repo while this runs.
cd /verif
for id in "$@"; do
  prop=${id%-*}
  cd /repo && [ -z "$(git status --porcelain)" ] || { echo "/repo not clean"; exit 2; }
  git apply /verif/seeded/$id/patch.diff || { echo "$id patch does not apply" | tee /verif/seeded/$id/result.txt; continue; }
  cd /verif
  timeout 1500 ./check $prop --tier quick > .scratch/seed_$id.log 2>&1; rc=$?
  nv=$(grep -ac '^VIOLATION' .scratch/seed_$id.log)
  {
    echo "check: ./check $prop --tier quick (on /repo with seeded/$id/patch.diff applied)"
    echo "exit=$rc violation_lines=$nv"
    grep -a "violated:\|^PROBLEM" .scratch/seed_$id.log | cut -c1-300 | head -6
  } > seeded/$id/result.txt
  echo "$id exit=$rc violations=$nv"
  git -C /repo checkout -- .
done
git -C /repo status --porcelain
