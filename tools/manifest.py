#!/usr/bin/env python3
"""Regenerate /verif/MANIFEST.json from the table below (kept in one place so it stays valid)."""
import json, os
V = os.path.dirname(os.path.dirname(os.path.abspath(__file__)))
props = [json.loads(l) for l in open(os.path.join(V, 'properties.jsonl'))]
claimed = json.load(open(os.path.join(V, 'tools', 'claims.json')))
checks, na = [], []
for p in props:
    c = claimed.get(p['id'])
    if c and c.get('claimed'):
        checks.append({
            "property_id": p['id'],
            "quick_cmd": f"./check {p['id']} --tier quick",
            "thorough_cmd": f"./check {p['id']} --tier thorough",
            "evidence_file": f"/verif/evidence/{p['id']}.json",
            "replay_cmd_template": f"bin/gosmt replay {p['id']} {{path}}",
            "engine": "gosmt",
            "level_claimed": {"category": "model_checking", "text": c['text'], "design_ref": c.get('design_ref', 'DESIGN.md §7 ' + p['id'])},
            "level_note": c['note'],
            "technique": c.get('technique', "bounded symbolic execution of the real functions from go/ssa; verification conditions decided by z3 (SMT); counterexamples replayed natively"),
        })
    else:
        na.append({"property_id": p['id'], "reason": (c or {}).get('reason', "check not built yet (engine under construction); to be claimed once its harness runs clean")})
m = {"version": 1,
     "setup_cmd": "cd /verif/engine && GOFLAGS=-mod=mod GOPROXY=off go build -o /verif/bin/gosmt . && cd /repo && GOFLAGS=-mod=mod GOPROXY=off go build ./pkg/... ",
     "hooks": {"guard": "verif", "enable": "none needed: harnesses and the verifnd API are injected with -overlay (go/packages Overlay for the symbolic run, go test -overlay for native replay); the tag 'verif' is reserved and unused",
               "baseline_off_cmd": "cd /repo && GOFLAGS=-mod=mod GOPROXY=off go test -vet=off -count=1 -timeout 25m ./...", "source_commits": json.load(open(os.path.join(V,'tools','fix_commits.json'))) if os.path.exists(os.path.join(V,'tools','fix_commits.json')) else [], "add_only": True},
     "engines": [{"name": "gosmt", "path": "/verif/engine", "serves_properties": [c['property_id'] for c in checks],
                  "kind_free_text": "bounded symbolic execution of /repo's go/ssa form (path-forking executor written for this task), verification conditions discharged by z3 4.8.12 over Int/BV8/Seq/UF; counterexamples and sampled path witnesses replayed natively through go test -overlay"}],
     "checks": checks,
     "notes": "see DESIGN.md; known findings in known_findings.txt; seeded changes in seeded/",
     "not_applicable": na}
json.dump(m, open(os.path.join(V, 'MANIFEST.json'), 'w'), indent=1)
print("claimed:", [c['property_id'] for c in checks])
