#!/bin/bash
# usage: seed_run.sh <patch.diff> <Cxx> [more checks...]  -- applies the patch to /repo, runs the quick checks, reverts
PATCH=$(readlink -f "$1"); shift
cd /repo && [ -z "$(git status --porcelain)" ] || { echo "/repo not clean"; exit 2; }
git apply "$PATCH" || exit 2
cd /verif
for c in "$@"; do
  ./check $c --tier quick > /tmp/seedrun_$c.txt 2>&1; rc=$?
  echo "$c exit=$rc $(grep -c '^VIOLATION' /tmp/seedrun_$c.txt) violation line(s)"; grep -a "violated:\|^VIOLATION\|^PROBLEM" /tmp/seedrun_$c.txt | cut -c1-260 | head -8
done
git -C /repo checkout -- . ; git -C /repo status --porcelain
