#!/bin/bash
# usage: seed_verify.sh <patch.diff> <demo_test.go>   -- confirms a seeded change in a scratch worktree
# (demo passes on the clean tree, fails with the patch, existing suite unchanged with the patch)
set -u
export GOFLAGS=-mod=mod GOPROXY=off
PATCH=$(readlink -f "$1"); DEMO=$(readlink -f "$2")
DIR=$(head -1 "$DEMO" | sed -n 's#^// dir: *##p')
[ -z "$DIR" ] && { echo "demo has no '// dir:' line"; exit 2; }
WT=$(mktemp -d /tmp/seedverify.XXXXXX)
git -C /repo worktree add --detach -q "$WT" HEAD || exit 2
trap 'git -C /repo worktree remove --force "$WT" >/dev/null 2>&1; rm -rf "$WT"' EXIT
cd "$WT"
cp "$DEMO" "$DIR/zz_seed_demo_test.go"
go test -vet=off -count=1 -run '^TestSeedDemo$' "./$DIR" >/tmp/seed_clean.txt 2>&1; CLEAN=$?
git apply "$PATCH" || { echo "patch does not apply"; exit 2; }
go build ./... >/tmp/seed_build.txt 2>&1 || { echo "patched tree does not build"; cat /tmp/seed_build.txt | tail; exit 2; }
go test -vet=off -count=1 -run '^TestSeedDemo$' "./$DIR" >/tmp/seed_patched.txt 2>&1; PATCHED=$?
rm "$DIR/zz_seed_demo_test.go"
go test -vet=off -count=1 ./pkg/... 2>&1 | grep -E "^(FAIL|---|ok)" | grep -v "pkg/client/rs\|TestDiscover\|TestNewResourceServer\|TestIntrospect\|^FAIL$" | grep -E "^(FAIL|--- FAIL)" | grep -v "github.com/zitadel/oidc/v3/pkg/client\s" > /tmp/seed_suite.txt
echo "clean+demo exit=$CLEAN  patched+demo exit=$PATCHED  new suite failures: $(wc -l < /tmp/seed_suite.txt)"
cat /tmp/seed_suite.txt
[ $CLEAN -eq 0 ] && [ $PATCHED -ne 0 ] && [ ! -s /tmp/seed_suite.txt ] && echo "SEED-CONFIRMED" || echo "SEED-REJECTED"
