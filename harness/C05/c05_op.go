package op

// C05 — no tokens or token metadata without client authentication and a registered grant.
// Token endpoint (every grant), introspection, revocation and device authorization, on both
// routers, one step from an arbitrary storage state.

import (
	"encoding/json"
	"net/url"
	"strings"
	"time"

	nd "github.com/zitadel/oidc/v3/internal/verifnd"
	"github.com/zitadel/oidc/v3/pkg/oidc"
)

var verifC05Grants = []oidc.GrantType{oidc.GrantTypeCode, oidc.GrantTypeRefreshToken, oidc.GrantTypeClientCredentials,
	oidc.GrantTypeTokenExchange, oidc.GrantTypeDeviceCode}

type verifC05 struct {
	st         *verifStorage
	storage    Storage
	full       bool
	form       url.Values
	cr         *verifCreds
	grant      string
	formClient string
	signedGrant bool
}

func verifC05Env() *verifC05 {
	h := &verifC05{st: &verifStorage{}}
	nm := nd.Param("authmethods", 4)
	h.st.clients = []*verifClient{verifNewClient("cA", "clientA", verifC05Grants, nm), verifNewClient("cB", "clientB", verifC05Grants, nm)}
	verifGiveKeys(h.st)
	verifSetupSigning(h.st, "RS256")
	h.storage, h.full = verifPickStorage(h.st)
	h.formClient = nd.Str("req.client_id")
	h.cr = &verifCreds{mode: nd.Choice("cred.mode", nd.Param("credmodes", 5)), id: nd.Str("cred.id"), secret: nd.Str("cred.secret")}
	if h.cr.mode == 4 {
		if nd.Choice("cred.assertion.kind", 2) == 1 {
			// an assertion really signed with clientA's registered key (arbitrary claims)
			h.cr.assertion = verifSignedAssertion("cred.assertion", h.st.clients[0].keyPriv, h.st.clients[0].keyID)
		} else {
			h.cr.assertion = nd.Str("cred.assertion")
		}
		h.cr.atype = oidc.ClientAssertionTypeJWTAssertion
		if nd.Choice("cred.atype", 2) == 1 {
			h.cr.atype = nd.Str("cred.assertion_type")
		}
	}
	h.form = url.Values{}
	h.form.Set("client_id", h.formClient)
	return h
}

// state the storage holds for clientA: a completed auth request with a code, a refresh token, an
// approved device authorization
func (h *verifC05) grantState() {
	verifier := nd.Str("A.verifier")
	nd.Assume(verifier != "")
	a := &verifAuthReq{id: "authreq-1", clientID: "clientA", subject: nd.Str("A.sub"), redirectURI: nd.Str("A.redirect"),
		responseType: oidc.ResponseTypeCode, done: true, authTime: time.Unix(1<<30, 0),
		challenge: &oidc.CodeChallenge{Method: oidc.CodeChallengeMethodS256, Challenge: oidc.NewSHACodeChallenge(verifier)}}
	h.st.authReq, h.st.code = a, nd.Str("code0")
	nd.Assume(h.st.code != "")
	h.st.refreshReq = &verifRefreshReq{clientID: "clientA", subject: nd.Str("R.sub"), audience: []string{"clientA"}, authTime: time.Unix(1<<30, 0)}
	h.st.refreshTok = nd.Str("rt0")
	nd.Assume(h.st.refreshTok != "")
	h.st.devState = &DeviceAuthorizationState{ClientID: "clientA", Done: true, Subject: nd.Str("D.sub"), Expires: time.Unix(1<<33, 0)}
	h.st.devClient, h.st.devCode = "clientA", nd.Str("dev0")
	nd.Assume(h.st.devCode != "")
	// invariant of device authorizations: they exist only for clients registered for the device grant
	// (established by the device-authorization endpoint, checked by VerifC05DeviceAuth*)
	nd.Assume(ValidateGrantType(h.st.clients[0], oidc.GrantTypeDeviceCode))
	h.st.teDefaults = true
	h.form.Set("code_verifier", verifier)
}

func (h *verifC05) tokenRequestParams(p *Provider) {
	gi := nd.Choice("grant", len(verifC09Grants)+1)
	if gi < len(verifC09Grants) {
		h.grant = verifC09Grants[gi]
	} else {
		h.grant = nd.Str("othergrant")
		for _, g := range verifC09Grants {
			nd.Assume(h.grant != g)
		}
	}
	if nd.Param("queryparams", 1) == 1 && nd.Choice("grant.inquery", 2) == 1 {
		h.form.Set("?grant_type", h.grant) // grant_type in the URL query of the POST
	} else {
		h.form.Set("grant_type", h.grant)
	}
	// the parameters each grant reads, with arbitrary values (what they mean is C04/C07/C14/C15/C16's
	// subject; here: who may use the grant)
	switch oidc.GrantType(h.grant) {
	case oidc.GrantTypeCode:
		h.form.Set("code", nd.Str("req.code"))
		h.form.Set("redirect_uri", nd.Str("req.redirect_uri"))
	case oidc.GrantTypeRefreshToken:
		h.form.Set("refresh_token", nd.Str("req.refresh_token"))
	case oidc.GrantTypeBearer:
		if nd.Choice("req.assertion.kind", 2) == 1 {
			h.signedGrant = true
			h.form.Set("assertion", verifSignedAssertion("req.assertion", h.st.clients[0].keyPriv, h.st.clients[0].keyID))
		} else {
			h.form.Set("assertion", nd.Str("req.assertion"))
		}
	case oidc.GrantTypeTokenExchange:
		switch nd.Choice("req.subject_kind", 3) {
		case 0:
			h.form.Set("subject_token", nd.Str("req.subject_token"))
			h.form.Set("subject_token_type", string(oidc.RefreshTokenType))
		case 1:
			h.form.Set("subject_token", h.sealedToken(p))
			h.form.Set("subject_token_type", string(oidc.AccessTokenType))
		default:
			t := nd.Str("req.subject_token_type")
			nd.Assume(!oidc.TokenType(t).IsSupported())
			h.form.Set("subject_token", nd.Str("req.subject_token"))
			h.form.Set("subject_token_type", t)
		}
	case oidc.GrantTypeDeviceCode:
		h.form.Set("device_code", nd.Str("req.device_code"))
	}
}

func (h *verifC05) claimed() string {
	if h.cr.mode == 1 {
		return h.cr.id
	}
	return h.formClient
}

// authenticated: the storage confirmed a secret for id, or handed out a key registered for id to
// verify an assertion, in this request
func (h *verifC05) authenticated(id string) bool {
	return nd.Or(nd.Contains(h.st.secretOK, id), nd.Or(nd.Contains(h.st.keyServed, id), nd.Contains(h.st.ccOK, id)))
}

func (h *verifC05) checkToken(rec *verifRec, p *Provider, server bool) {
	issued := len(h.st.created) > 0 || rec.hasTokens()
	if !issued {
		nd.Cover("refused-or-error")
		nd.Assert(rec.status >= 400, "no tokens: the answer is a non-success status")
		e, isErr := rec.oauthError()
		nd.Assert(isErr && e != "", "token endpoint refusals are OAuth error documents")
		return
	}
	nd.Cover("issued")
	nd.Assert(rec.status == 200, "tokens come with status 200")
	g := oidc.GrantType(h.grant)
	nd.Cover("issued-" + h.grant)
	if g == oidc.GrantTypeBearer {
		if h.signedGrant {
			nd.Cover("issued-jwt-bearer-signed")
		} else {
			nd.Cover("issued-jwt-bearer-arbitrary-string")
		}
		nd.Assert(len(h.st.keyServed) > 0, "jwt-bearer: the assertion was checked against a key the storage holds for its issuer")
		return
	}
	known := false
	for _, sg := range verifC05Grants {
		if g == sg {
			known = true
		}
	}
	nd.Assert(known, "tokens only for a supported grant_type")
	who := h.claimed()
	if h.cr.mode == 4 && len(h.st.keyServed) > 0 {
		who = h.st.keyServed[0]
	}
	c := h.st.client(who)
	nd.Assert(c != nil, "tokens only for a registered client")
	if c == nil {
		return
	}
	auth := h.authenticated(who)
	if g == oidc.GrantTypeClientCredentials {
		nd.Cover("issued-client-credentials")
		nd.Assert(nd.Contains(h.st.ccOK, who), "client_credentials: the storage confirmed the client's credentials")
		nd.Assert(h.full, "client_credentials only when the storage supports it")
	} else if g == oidc.GrantTypeDeviceCode && !server {
		// Provider router, device grant: the documented rule is "authenticated iff confidential (web) application type"
		nd.Assert(nd.Or(!IsConfidentialType(c), auth), "device grant: confidential (web) client authenticated")
	} else {
		nd.Assert(nd.Or(c.authMethod == oidc.AuthMethodNone, auth), "confidential client authenticated (secret confirmed by the storage or assertion key held for it)")
	}
	if g == oidc.GrantTypeCode || g == oidc.GrantTypeRefreshToken || (server && g != oidc.GrantTypeClientCredentials) {
		// where the code documents the registered-method rule
		nd.Assert(nd.Implies(c.authMethod == oidc.AuthMethodPost, p.config.AuthMethodPost), "client_secret_post client only when POST authentication is enabled")
		nd.Assert(nd.Implies(c.authMethod == oidc.AuthMethodPrivateKeyJWT, nd.Contains(h.st.keyServed, who)), "private_key_jwt client authenticates with an assertion, not a secret")
		nd.Assert(nd.Implies(nd.Contains(h.st.keyServed, who), nd.And(c.authMethod == oidc.AuthMethodPrivateKeyJWT, p.config.AuthMethodPrivateKeyJWT)), "assertion accepted only for a private_key_jwt client while that method is enabled")
	}
	nd.Assert(ValidateGrantType(c, g), "client is registered for the grant it used")
	switch g {
	case oidc.GrantTypeRefreshToken:
		nd.Assert(p.config.GrantTypeRefreshToken, "refresh grant enabled on the provider")
	case oidc.GrantTypeTokenExchange, oidc.GrantTypeDeviceCode:
		nd.Assert(h.full, "grant needs the storage capability")
	}
}

func VerifC05TokenLegacy() {
	h := verifC05Env()
	h.grantState()
	p := verifProvider(h.storage)
	h.tokenRequestParams(p)
	rec := newVerifRec()
	Exchange(rec, verifTokenRequest(h.form, h.cr, false), p)
	h.checkToken(rec, p, false)
}

func VerifC05TokenServer() {
	h := verifC05Env()
	h.grantState()
	p := verifProvider(h.storage)
	h.tokenRequestParams(p)
	ws := verifWebServer(p)
	rec := newVerifRec()
	ws.tokensHandler(rec, verifTokenRequest(h.form, h.cr, false))
	h.checkToken(rec, p, true)
}

// ---------------- introspection ----------------

func (r *verifRec) active() bool {
	if len(r.chunks) != 1 || r.hdr.Get("Content-Type") != "application/json" {
		return false
	}
	doc := new(verifActiveDoc)
	if err := json.Unmarshal(r.chunks[0], doc); err != nil {
		return false
	}
	return doc.Active
}

func (h *verifC05) checkIntrospect(rec *verifRec) {
	if rec.active() {
		nd.Cover("active")
		nd.Assert(rec.status == 200, "active answer has status 200")
		nd.Assert(h.st.introspectCalls == 1, "the storage decided liveness exactly once")
		nd.Assert(h.authenticated(h.st.lastCaller), "introspection result only for an authenticated caller")
		nd.Assert(h.st.liveOK, "active only if the storage said the token is live for this caller")
	} else {
		nd.Cover("inactive-or-refused")
		if h.st.introspectCalls > 0 {
			nd.Assert(h.authenticated(h.st.lastCaller), "the storage is asked only for an authenticated caller")
		}
	}
	if !nd.Or(len(h.st.secretOK) > 0, len(h.st.keyServed) > 0) {
		nd.Cover("unauthenticated")
		nd.Assert(rec.status >= 400, "unauthenticated introspection is refused with a non-success status")
		nd.Assert(h.st.introspectCalls == 0, "no token metadata looked up for an unauthenticated caller")
	}
}

// sealedToken: an opaque access token as the provider issues it (what the token means is C08's subject;
// here the caller's authentication is)
func (h *verifC05) sealedToken(p *Provider) string {
	id, sub := nd.Str("tok.id"), nd.Str("tok.sub")
	nd.Assume(!strings.Contains(id, ":") && !strings.Contains(sub, ":"))
	tok, _ := p.crypto.Encrypt(id + ":" + sub)
	return tok
}

func (h *verifC05) introspectParams(p *Provider) {
	h.st.liveOK = nd.Bool("live")
	h.form.Set("token", h.sealedToken(p))
}

func VerifC05IntrospectLegacy() {
	h := verifC05Env()
	p := verifProvider(h.storage)
	h.introspectParams(p)
	rec := newVerifRec()
	Introspect(rec, verifPostRequest("/oauth/introspect", h.form, h.cr, nd.Bool("badform")), p)
	h.checkIntrospect(rec)
}

func VerifC05IntrospectServer() {
	h := verifC05Env()
	p := verifProvider(h.storage)
	h.introspectParams(p)
	ws := verifWebServer(p)
	rec := newVerifRec()
	ws.introspectionHandler(rec, verifPostRequest("/oauth/introspect", h.form, h.cr, nd.Bool("badform")))
	h.checkIntrospect(rec)
}

// ---------------- revocation ----------------

func (h *verifC05) checkRevoke(rec *verifRec, p *Provider, server bool) {
	if len(h.st.revoked) > 0 {
		nd.Cover("revoked")
		who := h.st.lastCaller
		c := h.st.client(who)
		nd.Assert(c != nil, "revocation only for a registered client")
		if c == nil {
			return
		}
		nd.Assert(nd.Or(c.authMethod == oidc.AuthMethodNone, h.authenticated(who)), "revocation only for an authenticated (or public) client")
		if h.cr.mode != 4 {
			nd.Assert(who == h.claimed(), "the storage is told the client that made the request")
		}
		if server {
			nd.Assert(nd.Implies(c.authMethod == oidc.AuthMethodPost, p.config.AuthMethodPost), "client_secret_post client only when POST authentication is enabled")
		}
	} else {
		nd.Cover("not-revoked")
	}
	if rec.status >= 400 {
		nd.Cover("refused")
	}
}

func (h *verifC05) revokeParams(p *Provider) {
	h.form.Set("token", h.sealedToken(p))
	if nd.Choice("req.hint", 2) == 1 {
		h.form.Set("token_type_hint", "access_token")
	}
}

func VerifC05RevokeLegacy() {
	h := verifC05Env()
	p := verifProvider(h.storage)
	h.revokeParams(p)
	rec := newVerifRec()
	Revoke(rec, verifPostRequest("/revoke", h.form, h.cr, nd.Bool("badform")), p)
	h.checkRevoke(rec, p, false)
}

func VerifC05RevokeServer() {
	h := verifC05Env()
	p := verifProvider(h.storage)
	h.revokeParams(p)
	ws := verifWebServer(p)
	rec := newVerifRec()
	ws.withClient(ws.revocationHandler)(rec, verifPostRequest("/revoke", h.form, h.cr, nd.Bool("badform")))
	h.checkRevoke(rec, p, true)
}

// ---------------- device authorization ----------------

func (h *verifC05) checkDeviceAuth(rec *verifRec, server bool) {
	if len(h.st.devStored) > 0 {
		nd.Cover("device-authorization-started")
		who := h.st.devStored[0].clientID
		c := h.st.client(who)
		nd.Assert(c != nil, "device authorization only for a known client")
		if c == nil {
			return
		}
		nd.Assert(ValidateGrantType(c, oidc.GrantTypeDeviceCode), "device authorization only for a client registered for the device grant")
		if server {
			nd.Assert(nd.Or(c.authMethod == oidc.AuthMethodNone, h.authenticated(who)), "confidential client authenticated")
		}
	} else {
		nd.Cover("device-authorization-refused")
		nd.Assert(rec.status >= 400, "refusal is a non-success status")
	}
}

func VerifC05DeviceAuthLegacy() {
	h := verifC05Env()
	h.form.Set("scope", nd.Str("req.scope"))
	p := verifProvider(h.storage)
	rec := newVerifRec()
	DeviceAuthorizationHandler(p)(rec, verifPostRequest("/device_authorization", h.form, h.cr, nd.Bool("badform")))
	h.checkDeviceAuth(rec, false)
}

func VerifC05DeviceAuthServer() {
	h := verifC05Env()
	h.form.Set("scope", nd.Str("req.scope"))
	if nd.Choice("req.grantparam", 2) == 1 {
		h.form.Set("grant_type", nd.Str("req.grant_type"))
	}
	p := verifProvider(h.storage)
	ws := verifWebServer(p)
	rec := newVerifRec()
	ws.withClient(ws.deviceAuthorizationHandler)(rec, verifPostRequest("/device_authorization", h.form, h.cr, nd.Bool("badform")))
	h.checkDeviceAuth(rec, true)
}
