package rp

// C01 — RP ID-token validation is sound and complete w.r.t. OIDC Core 3.1.3.7.
// Differential harness: rp.VerifyIDToken / rp.VerifyTokens (real code) against the
// specification predicates below, for an arbitrary token and verifier configuration.

import (
	"context"
	"errors"
	"time"

	jose "github.com/go-jose/go-jose/v4"

	nd "github.com/zitadel/oidc/v3/internal/verifnd"
	"github.com/zitadel/oidc/v3/pkg/oidc"
)

type verifC01KeySet struct {
	ok    bool
	calls int
}

func (k *verifC01KeySet) VerifySignature(ctx context.Context, jws *jose.JSONWebSignature) ([]byte, error) {
	k.calls++
	if !k.ok {
		return nil, errors.New("signature does not verify")
	}
	return jws.UnsafePayloadWithoutVerification(), nil
}

type verifC01In struct {
	iss, sub, azp, nonce, acr, atHash, alg string
	aud                                   []string
	exp, iat, authTime                    int64 // unix seconds, 0 = absent
	// verifier
	issuer, clientID       string
	offset, maxIAT, maxAge time.Duration
	nonceMode              int // 0 default (""), 1 custom value, 2 nil func
	nonceWant              string
	acrMode                int // 0 none, 1.. DefaultACRVerifier with acrMode values
	acrValues              []string
	algsMode               int // 0 default list, 1 custom list of one
	algAllowed             string
	sigOK                  bool
}

const verifSec = int64(time.Second)
const verifMaxDrift = int64(1) << 36 // the call takes at most ~68 s of wall clock

func verifC01Draw() (*verifC01In, *oidc.IDTokenClaims) {
	in := &verifC01In{}
	in.iss, in.sub, in.azp = nd.Str("iss"), nd.Str("sub"), nd.Str("azp")
	in.nonce, in.acr, in.atHash, in.alg = nd.Str("nonce"), nd.Str("acr"), nd.Str("at_hash"), nd.Str("alg")
	naud := nd.Choice("naud", nd.Param("maxaud", 2)+1)
	for i := 0; i < naud; i++ {
		in.aud = append(in.aud, nd.Str("aud"))
	}
	in.exp = nd.Int("exp", 0, 1<<33)
	in.iat = nd.Int("iat", 0, 1<<33)
	in.authTime = nd.Int("auth_time", 0, 1<<33)

	in.issuer, in.clientID = nd.Str("v.issuer"), nd.Str("v.client")
	in.offset = time.Duration(nd.Int("v.offset", -(1 << 56), 1<<56))
	in.maxIAT = time.Duration(nd.Int("v.maxiat", 0, 1<<56))
	in.maxAge = time.Duration(nd.Int("v.maxage", 0, 1<<56))
	in.nonceMode = nd.Choice("noncemode", nd.Param("noncemodes", 3))
	in.nonceWant = nd.Str("v.nonce")
	in.acrMode = nd.Choice("acrmode", nd.Param("maxacr", 2)+1)
	for i := 0; i < in.acrMode; i++ {
		in.acrValues = append(in.acrValues, nd.Str("v.acr"))
	}
	in.algsMode = nd.Choice("algsmode", 2)
	in.algAllowed = nd.Str("v.alg")
	in.sigOK = nd.Bool("sigok")

	c := &oidc.IDTokenClaims{}
	c.Issuer, c.Subject, c.AuthorizedParty = in.iss, in.sub, in.azp
	c.Nonce, c.AuthenticationContextClassReference, c.AccessTokenHash = in.nonce, in.acr, in.atHash
	c.Audience = in.aud
	c.Expiration, c.IssuedAt, c.AuthTime = oidc.Time(in.exp), oidc.Time(in.iat), oidc.Time(in.authTime)
	return in, c
}

func verifC01Verifier(in *verifC01In, ks oidc.KeySet) *IDTokenVerifier {
	opts := []VerifierOption{WithIssuedAtOffset(in.offset), WithIssuedAtMaxAge(in.maxIAT), WithAuthTimeMaxAge(in.maxAge)}
	switch in.nonceMode {
	case 1:
		want := in.nonceWant
		opts = append(opts, WithNonce(func(context.Context) string { return want }))
	case 2:
		opts = append(opts, WithNonce(nil))
	}
	if in.acrMode > 0 {
		opts = append(opts, WithACRVerifier(oidc.DefaultACRVerifier(in.acrValues)))
	}
	if in.algsMode == 1 {
		opts = append(opts, WithSupportedSigningAlgorithms(in.algAllowed))
	}
	return NewIDTokenVerifier(in.issuer, in.clientID, ks, opts...)
}

func verifC01AlgAllowed(in *verifC01In) bool {
	if in.algsMode == 1 {
		return in.alg == in.algAllowed
	}
	return nd.Or(in.alg == "RS256", nd.Or(in.alg == "ES256", in.alg == "PS256"))
}

// specification, statement of C01 (times in unix ns; margin = rounding second)
func verifC01Static(in *verifC01In) bool {
	ok := nd.And(in.iss == in.issuer, in.sub != "")
	ok = nd.And(ok, nd.Contains(in.aud, in.clientID))
	ok = nd.And(ok, nd.Or(in.azp == "", in.azp == in.clientID))
	ok = nd.And(ok, nd.Or(len(in.aud) <= 1, in.azp != ""))
	ok = nd.And(ok, nd.And(in.sigOK, verifC01AlgAllowed(in)))
	switch in.nonceMode {
	case 0:
		ok = nd.And(ok, in.nonce == "")
	case 1:
		ok = nd.And(ok, in.nonce == in.nonceWant)
	}
	if in.acrMode > 0 {
		ok = nd.And(ok, nd.Contains(in.acrValues, in.acr))
	}
	return ok
}

func verifC01TimesSound(in *verifC01In, first, last int64) bool {
	off, mi, ma := int64(in.offset), int64(in.maxIAT), int64(in.maxAge)
	ok := first+off < in.exp*verifSec
	ok = nd.And(ok, in.iat != 0)
	ok = nd.And(ok, in.iat*verifSec <= last+off+verifSec)
	ok = nd.And(ok, nd.Or(mi == 0, in.iat*verifSec >= first-mi-verifSec))
	ok = nd.And(ok, nd.Or(ma == 0, nd.And(in.authTime != 0, in.authTime*verifSec >= first-ma-verifSec)))
	return ok
}

// every inequality holds with more than rounding margin + clock drift during the call
func verifC01TimesSlack(in *verifC01In, first, last int64) bool {
	off, mi, ma := int64(in.offset), int64(in.maxIAT), int64(in.maxAge)
	m := verifSec + (last - first)
	ok := last+off+m < in.exp*verifSec
	ok = nd.And(ok, in.iat != 0)
	ok = nd.And(ok, in.iat*verifSec+m <= first+off)
	ok = nd.And(ok, nd.Or(mi == 0, in.iat*verifSec >= last-mi+m))
	ok = nd.And(ok, nd.Or(ma == 0, nd.And(in.authTime != 0, in.authTime*verifSec >= last-ma+m)))
	return ok
}

func verifC01Unchanged(in *verifC01In, got *oidc.IDTokenClaims) bool {
	ok := nd.And(got.Issuer == in.iss, got.Subject == in.sub)
	ok = nd.And(ok, nd.And(got.AuthorizedParty == in.azp, got.Nonce == in.nonce))
	ok = nd.And(ok, nd.And(got.AuthenticationContextClassReference == in.acr, got.AccessTokenHash == in.atHash))
	ok = nd.And(ok, nd.EqStrs(got.Audience, in.aud))
	ok = nd.And(ok, nd.And(int64(got.Expiration) == in.exp, nd.And(int64(got.IssuedAt) == in.iat, int64(got.AuthTime) == in.authTime)))
	ok = nd.And(ok, string(got.SignatureAlg) == in.alg)
	return ok
}

// VerifC01IDToken: rp.VerifyIDToken sound and complete.
func VerifC01IDToken() {
	in, claims := verifC01Draw()
	ks := &verifC01KeySet{ok: in.sigOK}
	tok := nd.Token(claims, in.alg, nd.Str("kid"), 1)
	v := verifC01Verifier(in, ks)

	got, err := VerifyIDToken[*oidc.IDTokenClaims](nd.Ctx(0), tok, v)

	first, last := nd.ClockFirst(), nd.ClockLast()
	nd.Assume(last-first <= verifMaxDrift)
	if err == nil {
		nd.Cover("accepted")
		nd.Assert(got != nil, "claims returned on success")
		nd.Assert(verifC01Static(in), "sound: issuer, subject, audience, azp, signature, nonce and acr requirements hold")
		nd.Assert(verifC01TimesSound(in, first, last), "sound: exp / iat / auth_time requirements hold at the time of the call")
		nd.Assert(ks.calls == 1, "exactly one signature verification")
		if got != nil {
			nd.Assert(verifC01Unchanged(in, got), "claims returned unchanged")
		}
	} else {
		nd.Cover("rejected")
		nd.Assert(got == nil, "no claims on error")
		nd.Assert(nd.Not(nd.And(verifC01Static(in), verifC01TimesSlack(in, first, last))), "complete: a token meeting every condition with margin is accepted")
	}
}

func verifC01HashKind(alg string) (string, bool) {
	switch alg {
	case "RS256", "ES256", "PS256":
		return "sha256", true
	case "RS384", "ES384", "PS384":
		return "sha384", true
	case "RS512", "ES512", "PS512", "EdDSA":
		return "sha512", true
	}
	return "", false
}

// VerifC01Tokens: rp.VerifyTokens binds at_hash to exactly the access token given.
func VerifC01Tokens() {
	in, claims := verifC01Draw()
	ks := &verifC01KeySet{ok: in.sigOK}
	algs := []string{"RS256", "ES256", "PS256", "RS384", "ES384", "PS384", "RS512", "ES512", "PS512", "EdDSA", "HS256"}
	ai := nd.Choice("algidx", len(algs)+1)
	if ai < len(algs) {
		nd.Assume(in.alg == algs[ai])
	} else {
		for _, a := range algs {
			nd.Assume(in.alg != a)
		}
	}
	in.algsMode, in.algAllowed = 1, in.alg
	access := nd.Str("access_token")
	kind, hasKind := verifC01HashKind(in.alg)
	// derivation choice for at_hash: absent, the correct left-half hash, or any other string
	switch nd.Choice("athash", 3) {
	case 0:
		nd.Assume(in.atHash == "")
	case 1:
		if !hasKind {
			nd.Assume(false)
		}
		in.atHash = nd.Hash(kind, access, true)
	case 2:
		if hasKind {
			nd.Assume(in.atHash != nd.Hash(kind, access, true))
		}
	}
	claims.AccessTokenHash = in.atHash
	tok := nd.Token(claims, in.alg, nd.Str("kid"), 1)
	v := verifC01Verifier(in, ks)

	got, err := VerifyTokens[*oidc.IDTokenClaims](nd.Ctx(0), access, tok, v)

	first, last := nd.ClockFirst(), nd.ClockLast()
	nd.Assume(last-first <= verifMaxDrift)
	hashOK := in.atHash == ""
	if hasKind {
		hashOK = nd.Or(hashOK, in.atHash == nd.Hash(kind, access, true))
	}
	if err == nil {
		nd.Cover("accepted")
		nd.Assert(got != nil, "claims returned on success")
		nd.Assert(verifC01Static(in), "sound (static requirements)")
		nd.Assert(verifC01TimesSound(in, first, last), "sound (time requirements)")
		nd.Assert(hashOK, "a present at_hash is the left-half hash of exactly this access token")
		if in.atHash != "" {
			nd.Cover("accepted-with-at_hash")
		}
	} else {
		nd.Cover("rejected")
		nd.Assert(got == nil, "no claims on error")
		nd.Assert(nd.Not(nd.And(nd.And(verifC01Static(in), verifC01TimesSlack(in, first, last)), hashOK)), "complete (with access token)")
	}
}
