package rp

// C17 — the RP callback exchanges a code only if the state matches its signed cookie; PKCE binding.
//   VerifC17Callback  CodeExchangeHandler from an arbitrary cookie jar and callback query
//   VerifC17Start     AuthURLHandler: what the browser is sent to the provider with, and what it keeps

import (
	"log/slog"
	"net/http"
	"net/url"

	"golang.org/x/oauth2"

	nd "github.com/zitadel/oidc/v3/internal/verifnd"
	httphelper "github.com/zitadel/oidc/v3/pkg/http"
	"github.com/zitadel/oidc/v3/pkg/oidc"
)

var (
	verifC17KeyRP    = []byte("rp-hash-key-0123456789abcdef0123")
	verifC17KeyOther = []byte("other-hash-key-0123456789abcdef01")
)

type verifC17Rec struct {
	hdr    http.Header
	status int
}

func newVerifC17Rec() *verifC17Rec          { return &verifC17Rec{hdr: http.Header{}} }
func (r *verifC17Rec) Header() http.Header { return r.hdr }
func (r *verifC17Rec) WriteHeader(c int) {
	if r.status == 0 {
		r.status = c
	}
}
func (r *verifC17Rec) Write(b []byte) (int, error) {
	if r.status == 0 {
		r.status = 200
	}
	return len(b), nil
}

type verifC17 struct {
	rp       *relyingParty
	rt       *nd.RT
	tokenReq []url.Values // forms that arrived at the token endpoint
	called   int          // application callback invocations
	cbState  string
	unauth   int
	errh     int
	status   int
}

func verifC17RP(pkce bool) *verifC17 {
	h := &verifC17{}
	client, rt := nd.NewHTTPClient(func(k int, r *http.Request) (int, string, bool) {
		if r.ParseForm() == nil {
			h.tokenReq = append(h.tokenReq, r.PostForm)
		}
		if nd.Bool("token.endpoint.fails") {
			return 0, "", true
		}
		if nd.Bool("token.endpoint.refuses") {
			return 400, `{"error":"invalid_grant"}`, false
		}
		return 200, `{"access_token":"at-1","token_type":"Bearer","expires_in":3600}`, false
	})
	h.rt = rt
	h.rp = &relyingParty{
		issuer: "https://op.example.com",
		oauthConfig: &oauth2.Config{ClientID: "rp-client", ClientSecret: "rp-secret", RedirectURL: "https://rp.example.com/callback",
			Scopes:   []string{"openid", "profile"},
			Endpoint: oauth2.Endpoint{AuthURL: "https://op.example.com/authorize", TokenURL: "https://op.example.com/oauth/token", AuthStyle: oauth2.AuthStyleInParams}},
		oauth2Only:    true,
		pkce:          pkce,
		httpClient:    client,
		cookieHandler: httphelper.NewCookieHandler(verifC17KeyRP, nil, httphelper.WithUnsecure()),
		logger:        slog.Default(),
	}
	h.rp.unauthorizedHandler = func(w http.ResponseWriter, r *http.Request, desc string, state string) {
		h.unauth++
		http.Error(w, desc, http.StatusUnauthorized)
	}
	h.rp.errorHandler = func(w http.ResponseWriter, r *http.Request, et string, ed string, state string) {
		h.errh++
		http.Error(w, et, http.StatusInternalServerError)
	}
	return h
}

// a cookie as a browser may present it: minted by this RP for `name`, minted under another key, minted by
// this RP for another cookie name, an arbitrary (tampered / truncated) string, or absent.
// Returns the plaintext it was minted for and whether this RP minted it for `name`.
func verifC17Cookie(r *http.Request, tag, name, other string, own *httphelper.CookieHandler) (*http.Request, string, bool) {
	plain := nd.Str(tag + ".plain")
	foreign := httphelper.NewCookieHandler(verifC17KeyOther, nil, httphelper.WithUnsecure())
	mint := func(hd *httphelper.CookieHandler, nm string) string {
		rec := newVerifC17Rec()
		if hd.SetCookie(rec, nm, plain) != nil {
			nd.Assume(false)
		}
		v, _, ok := nd.CookieSet(rec, nm)
		if !ok {
			nd.Assume(false)
		}
		return v
	}
	switch nd.Choice(tag+".kind", 5) {
	case 1:
		return nd.WithCookie(r, name, mint(own, name)), plain, true
	case 2:
		return nd.WithCookie(r, name, mint(foreign, name)), plain, false
	case 3:
		return nd.WithCookie(r, name, mint(own, other)), plain, false // a cookie minted for the other name, swapped in
	case 4:
		return nd.WithCookie(r, name, nd.Str(tag+".raw")), plain, false
	}
	return r, plain, false
}

func VerifC17Callback() {
	pkce := nd.Choice("rp.pkce", 2) == 1
	h := verifC17RP(pkce)
	form := url.Values{}
	qState, code := nd.Str("cb.state"), nd.Str("cb.code")
	form.Set("state", qState)
	form.Set("code", code)
	if nd.Choice("cb.error.given", 2) == 1 {
		form.Set("error", nd.Str("cb.error"))
	}
	method := []string{"GET", "POST"}[nd.Choice("cb.method", 2)] // POST: response_mode=form_post
	r := nd.Request(method, "/callback", form, "", "", false, false)
	r, statePlain, stateOwn := verifC17Cookie(r, "cookie.state", "state", "pkce", h.rp.cookieHandler)
	var pkcePlain string
	var pkceOwn bool
	if pkce {
		r, pkcePlain, pkceOwn = verifC17Cookie(r, "cookie.pkce", "pkce", "state", h.rp.cookieHandler)
	}
	handler := CodeExchangeHandler(func(w http.ResponseWriter, r *http.Request, tokens *oidc.Tokens[*oidc.IDTokenClaims], state string, rp RelyingParty) {
		h.called++
		h.cbState = state
		w.WriteHeader(http.StatusOK)
	}, h.rp)
	rec := newVerifC17Rec()
	handler(rec, r)

	stateOK := nd.And(stateOwn, statePlain == qState)
	if len(h.tokenReq) > 0 {
		nd.Cover("code-sent-to-provider")
		nd.Assert(len(h.tokenReq) == 1, "one token request at most")
		nd.Assert(stateOK, "a code is sent to the provider only if the state parameter equals the state in this RP's own signed state cookie")
		nd.Assert(h.tokenReq[0].Get("code") == code, "the code exchanged is the one from the callback")
		nd.Assert(form.Get("error") == "", "no exchange for an error callback")
		if pkce {
			nd.Cover("code-sent-with-verifier")
			nd.Assert(pkceOwn, "with PKCE a code is exchanged only with this RP's own signed pkce cookie")
			nd.Assert(h.tokenReq[0].Get("code_verifier") == pkcePlain, "the code_verifier sent is the one stored in the pkce cookie")
		} else {
			nd.Assert(h.tokenReq[0].Get("code_verifier") == "", "no code_verifier without PKCE")
		}
	}
	if h.called > 0 {
		nd.Cover("application-callback")
		nd.Assert(stateOK, "the application callback runs only if the state matches the signed cookie")
		nd.Assert(len(h.tokenReq) == 1, "the application callback runs only after the code exchange")
		nd.Assert(h.cbState == qState, "the application callback is given the verified state")
	}
	if !stateOK {
		nd.Cover("state-mismatch")
		nd.Assert(h.unauth == 1 && rec.status == http.StatusUnauthorized, "a missing, foreign, swapped, tampered or non-matching state cookie leads to the unauthorized handler")
		nd.Assert(len(h.tokenReq) == 0 && h.called == 0, "and nothing is sent to the provider")
	}
}

func VerifC17Start() {
	pkce := nd.Choice("rp.pkce", 2) == 1
	h := verifC17RP(pkce)
	state := nd.Str("login.state")
	nd.Assume(state != "")
	handler := AuthURLHandler(func() string { return state }, h.rp)
	rec := newVerifC17Rec()
	handler(rec, nd.Request("GET", "/login", url.Values{}, "", "", false, false))
	nd.Assert(rec.status == http.StatusFound, "the login handler redirects to the provider")
	if rec.status != http.StatusFound {
		return
	}
	nd.Cover("login-redirect")
	u, err := url.Parse(rec.Header().Get("Location"))
	nd.Assert(err == nil, "Location parses")
	if err != nil {
		return
	}
	q := u.Query()
	nd.Assert(u.Scheme == "https" && u.Host == "op.example.com" && u.Path == "/authorize", "the authorization URL is the provider's authorization endpoint")
	nd.Assert(q.Get("client_id") == "rp-client" && q.Get("redirect_uri") == "https://rp.example.com/callback", "the authorization URL carries the configured client and redirect URI")
	nd.Assert(q.Get("scope") == "openid profile" && q.Get("response_type") == "code", "the authorization URL carries the configured scopes")
	nd.Assert(q.Get("state") == state, "the authorization URL carries the state")
	// the state cookie the browser keeps decodes (under this RP's key, for this name) to that state
	sc, _, ok := nd.CookieSet(rec, "state")
	nd.Assert(ok, "a state cookie is set")
	back := nd.WithCookie(nd.Request("GET", "/callback", url.Values{}, "", "", false, false), "state", sc)
	got, err := h.rp.cookieHandler.CheckCookie(back, "state")
	nd.Assert(err == nil && got == state, "the state cookie holds the state of the authorization URL")
	if pkce {
		nd.Cover("login-pkce")
		pc, _, ok := nd.CookieSet(rec, "pkce")
		nd.Assert(ok, "a pkce cookie is set")
		back = nd.WithCookie(back, "pkce", pc)
		verifier, err := h.rp.cookieHandler.CheckCookie(back, "pkce")
		nd.Assert(err == nil && verifier != "", "the pkce cookie holds a verifier")
		nd.Assert(q.Get("code_challenge_method") == "S256", "the challenge method is S256")
		nd.Assert(q.Get("code_challenge") == oidc.NewSHACodeChallenge(verifier), "the code_challenge is the S256 challenge of the verifier stored in the cookie")
	} else {
		nd.Assert(q.Get("code_challenge") == "", "no challenge without PKCE")
	}
}
