package op

// C04 — a code yields tokens once, only to its client, redirect URI and PKCE proof.
// One step from an arbitrary storage state holding one completed auth request A (client
// "clientA") bound to a code; two registered clients; arbitrary token request.

import (
	"net/url"
	"time"

	nd "github.com/zitadel/oidc/v3/internal/verifnd"
	"github.com/zitadel/oidc/v3/pkg/oidc"
)

type verifC04 struct {
	st           *verifStorage
	A            *verifAuthReq
	goodVerifier string
	form         url.Values
	cr           *verifCreds
	code, redirect, formClient, verifier string
	verifierGood bool
}

func verifC04Setup() *verifC04 {
	h := &verifC04{st: &verifStorage{}}
	grants := []oidc.GrantType{oidc.GrantTypeCode}
	nm := nd.Param("authmethods", 3)
	h.st.clients = []*verifClient{verifNewClient("cA", "clientA", grants, nm), verifNewClient("cB", "clientB", grants, nm)}
	verifSetupSigning(h.st, "RS256")
	h.A = &verifAuthReq{id: "authreq-1", clientID: "clientA", subject: nd.Str("A.sub"), nonce: nd.Str("A.nonce"),
		redirectURI: nd.Str("A.redirect"), scopes: verifScopes("A.scope", nd.Param("maxscopes", 1), true),
		responseType: oidc.ResponseTypeCode, done: true, authTime: time.Unix(nd.Int("A.authtime", 1<<30, 1<<32), 0)}
	h.goodVerifier = nd.Str("A.verifier")
	nd.Assume(h.goodVerifier != "")
	switch nd.Choice("A.challenge", 3) {
	case 1:
		h.A.challenge = &oidc.CodeChallenge{Method: oidc.CodeChallengeMethodS256, Challenge: oidc.NewSHACodeChallenge(h.goodVerifier)}
	case 2:
		h.A.challenge = &oidc.CodeChallenge{Method: oidc.CodeChallengeMethodPlain, Challenge: h.goodVerifier}
	}
	h.st.authReq = h.A
	h.st.code = nd.Str("code0")
	nd.Assume(h.st.code != "")

	// the token request
	h.code, h.redirect, h.formClient = nd.Str("req.code"), nd.Str("req.redirect_uri"), nd.Str("req.client_id")
	switch nd.Choice("req.verifier", 3) {
	case 0:
		h.verifier = ""
	case 1:
		h.verifier, h.verifierGood = h.goodVerifier, true
	case 2:
		h.verifier = nd.Str("req.code_verifier")
		nd.Assume(h.verifier != h.goodVerifier && h.verifier != "")
		// distinct verifiers have distinct S256 challenges (collision resistance of SHA-256, assumed)
		nd.Assume(oidc.NewSHACodeChallenge(h.verifier) != oidc.NewSHACodeChallenge(h.goodVerifier))
		nd.Assume(oidc.NewSHACodeChallenge(h.verifier) != h.goodVerifier && h.verifier != oidc.NewSHACodeChallenge(h.goodVerifier))
	}
	h.form = url.Values{}
	h.form.Set("grant_type", "authorization_code")
	h.form.Set("code", h.code)
	h.form.Set("redirect_uri", h.redirect)
	h.form.Set("client_id", h.formClient)
	h.form.Set("code_verifier", h.verifier)
	h.cr = &verifCreds{mode: nd.Choice("cred.mode", 4), id: nd.Str("cred.id"), secret: nd.Str("cred.secret")}
	return h
}

// the client id the request claims
func (h *verifC04) claimedClient() string {
	if h.cr.mode == 1 {
		return h.cr.id
	}
	return h.formClient
}

func (h *verifC04) check(rec *verifRec, p *Provider, router string) {
	cA := h.st.clients[0]
	if rec.status == 200 && rec.hasTokens() {
		nd.Cover("tokens-issued")
		nd.Assert(h.code == h.st.code, "code is the one issued for the auth request")
		nd.Assert(h.claimedClient() == h.A.clientID, "redeemed by (a request naming) the client the code was issued to")
		switch cA.authMethod {
		case oidc.AuthMethodNone:
			nd.Assert(h.A.challenge != nil, "public client redeems only a code that carried a PKCE challenge")
		case oidc.AuthMethodBasic, oidc.AuthMethodPost:
			nd.Assert(nd.Contains(h.st.secretOK, h.A.clientID), "confidential client authenticated with its registered secret")
			if cA.authMethod == oidc.AuthMethodPost {
				nd.Assert(p.config.AuthMethodPost, "client_secret_post client only when POST authentication is enabled")
			}
		default:
			nd.Assert(false, "private_key_jwt client cannot authenticate with a secret")
		}
		nd.Assert(ValidateGrantType(cA, oidc.GrantTypeCode), "client is registered for the authorization_code grant")
		nd.Assert(h.redirect == h.A.redirectURI, "redirect_uri equals the one of the authorization request")
		if h.A.challenge != nil {
			nd.Assert(h.verifierGood, "PKCE: the code_verifier matches the challenge of the authorization request")
		}
		nd.Assert(h.st.isDeleted(h.A.id), "auth request deleted, so the code cannot be redeemed again")
		nd.Assert(len(h.st.created) == 1, "exactly one token creation")
		if len(h.st.created) == 1 {
			tr, _ := h.st.created[0].req.(*verifAuthReq)
			nd.Assert(tr == h.A, "tokens are created for the authorization request of the code")
		}
	} else {
		nd.Cover("refused")
		nd.Assert(rec.status >= 400, "refusal is a 4xx/5xx status")
		nd.Assert(!rec.hasTokens(), "no tokens in a refusal")
	}
}

// VerifC04Legacy: Provider router (op.Exchange → CodeExchange).
func VerifC04Legacy() {
	h := verifC04Setup()
	p := verifProvider(h.st)
	rec := newVerifRec()
	Exchange(rec, verifTokenRequest(h.form, h.cr, false), p)
	h.check(rec, p, "legacy")
}

// VerifC04Server: Server-interface router (webServer.tokensHandler → LegacyServer.CodeExchange).
func VerifC04Server() {
	h := verifC04Setup()
	p := verifProvider(h.st)
	ws := verifWebServer(p)
	rec := newVerifRec()
	ws.tokensHandler(rec, verifTokenRequest(h.form, h.cr, false))
	h.check(rec, p, "server")
}
