package op

// C03 — the OP never redirects an authorization response or error to an unregistered URI.
//   VerifC03Predicate      ValidateAuthReqRedirectURI against the statement's rule, arbitrary client / URI
//   VerifC03AuthorizeLegacy  op.Authorize (Provider router): every answer of the authorization endpoint
//   VerifC03AuthorizeServer  webServer.authorizeHandler -> LegacyServer (Server router)
//   VerifC03Callback         op.AuthorizeCallback from an arbitrary stored request (both routers share it)

import (
	"net"
	"net/url"
	"strings"

	"github.com/bmatcuk/doublestar/v4"

	nd "github.com/zitadel/oidc/v3/internal/verifnd"
	"github.com/zitadel/oidc/v3/pkg/oidc"
)

// candidate pools on which the real net/url, net and doublestar semantics apply
var (
	verifC03Registered = []string{"https://rp.example/cb", "http://rp.example/cb", "http://localhost/cb?x=1", "http://127.0.0.1:8080/cb",
		"https://app.example/auth/callback", "app://cb", "http://[::1]/cb"}
	verifC03Globs     = []string{"https://rp.example/*/cb", "https://*.rp.example/cb", "http://rp.example/**", "["}
	verifC03Requested = []string{"https://rp.example/cb", "http://rp.example/cb", "https://rp.example/x/cb", "https://evil.rp.example/cb",
		"https://rp.example.evil.test/cb", "https://rp.example@evil.test/cb", "http://localhost:9999/cb?x=1", "http://localhost:9999/cb", "https://127.0.0.1/cb",
		"http://127.0.0.1:1/auth/callback", "http://[::1]:7/cb", "app://cb", "app://cb/other", "HTTP://rp.example/cb", "http://rp.example/a/b", "https://evil.test/"}
)

// smaller pools for the flow harnesses
var (
	verifC03FlowRegistered = []string{"https://rp.example/cb", "http://localhost/cb?x=1", "app://cb"}
	verifC03FlowRequested  = []string{"https://rp.example/cb", "https://evil.test/", "http://localhost:9999/cb?x=1", "app://cb", "https://rp.example/x/cb", ""}
)

type verifC03 struct {
	st        *verifStorage
	c         *verifClient
	gc        *verifGlobClient
	hasGlobs  bool
	globs     []string
	uri       string
	rt        string
	pool      bool
	p         *Provider
	form      url.Values
	clientID  string
	state     string
	mode      string
	hasURI    bool
	hasClient bool
	absolute  bool // flows: requested URIs carry a scheme
	scn       int  // flows, quick tier, arbitrary-string mode: 0 plain, 1 scope absent, 2 globs, 3 storage faults, 4 unparsable form
	reduced   bool // flows, quick tier: scenarios instead of the full cross product
}

// verifC03Loopback: an http(s) URL whose host is localhost or a loopback IP literal
func verifC03Loopback(s string) (*url.URL, bool) {
	u, err := url.Parse(s)
	if err != nil {
		return nil, false
	}
	h := u.Hostname()
	return u, nd.And(nd.Or(u.Scheme == "http", u.Scheme == "https"), nd.Or(h == "localhost", net.ParseIP(h).IsLoopback()))
}

// allowed is the statement's rule, written from the statement (fork-free connectives).
func (h *verifC03) allowed(uri string, rt string) bool {
	c := h.c
	native := c.appType == ApplicationTypeNative
	// registered: exact string, opted-in glob, or (native) loopback variant of a registered loopback URI
	registered := false
	for _, r := range c.redirectURIs {
		registered = nd.Or(registered, r == uri)
	}
	if h.hasGlobs {
		for _, g := range h.globs {
			if ok, err := doublestar.Match(g, uri); err == nil {
				registered = nd.Or(registered, ok)
			}
		}
	}
	pu, loop := verifC03Loopback(uri)
	if pu != nil {
		variant := false
		for _, r := range c.redirectURIs {
			if ru, rl := verifC03Loopback(r); ru != nil {
				variant = nd.Or(variant, nd.And(rl, nd.And(ru.Path == pu.Path, ru.RawQuery == pu.RawQuery)))
			}
		}
		registered = nd.Or(registered, nd.And(native, nd.And(loop, variant)))
	} else {
		loop = false
	}
	// scheme rule
	https := nd.HasPrefix(uri, "https://")
	http := nd.HasPrefix(uri, "http://")
	httpOK := nd.Or(c.devMode, nd.Or(nd.And(native, loop), nd.And(c.appType == ApplicationTypeWeb, rt == string(oidc.ResponseTypeCode))))
	scheme := nd.Or(https, nd.Or(nd.And(http, httpOK), nd.And(nd.Not(nd.Or(https, http)), native)))
	return nd.And(uri != "", nd.And(registered, scheme))
}

func verifC03Client(flow bool) *verifC03 {
	h := &verifC03{st: &verifStorage{}, absolute: flow}
	c := &verifClient{id: "clientA", secret: "s3cret", authMethod: oidc.AuthMethodBasic}
	c.appType = ApplicationType(nd.Int("cA.apptype", 0, 2))
	c.devMode = nd.Bool("cA.devmode")
	c.responseTypes = []oidc.ResponseType{oidc.ResponseTypeCode, oidc.ResponseTypeIDToken, oidc.ResponseTypeIDTokenOnly}
	c.grantTypes = []oidc.GrantType{oidc.GrantTypeCode, oidc.GrantTypeImplicit}
	h.pool = nd.Choice("uris.mode", 2) == 1
	nreg := 1 + nd.Choice("cA.nuris", nd.Param("maxuris", 2))
	for i := 0; i < nreg; i++ {
		if h.pool && flow {
			c.redirectURIs = append(c.redirectURIs, verifC03FlowRegistered[nd.Choice("cA.uri.pool", len(verifC03FlowRegistered))])
		} else if h.pool {
			c.redirectURIs = append(c.redirectURIs, verifC03Registered[nd.Choice("cA.uri.pool", len(verifC03Registered))])
		} else {
			c.redirectURIs = append(c.redirectURIs, nd.Str("cA.uri"))
		}
	}
	h.c = c
	h.st.clients = []*verifClient{c}
	// flows, quick tier: scenarios instead of the full cross product of globs x faults x scope x form
	// (the predicate harness crosses globs with everything; the thorough tier crosses all)
	h.reduced = flow && nd.Param("cross", 0) == 0
	if h.reduced && !h.pool {
		h.scn = nd.Choice("scenario", 5)
	} else if h.reduced {
		// candidate pool: the plain scenario and the storage-fault one (realisable witnesses of the error redirects)
		h.scn = []int{0, 3}[nd.Choice("scenario.pool", 2)]
	}
	withGlobs := false
	if h.reduced {
		withGlobs = h.scn == 2
	} else {
		withGlobs = nd.Choice("cA.globs", 2) == 1
	}
	if withGlobs {
		h.hasGlobs = true
		if h.pool && flow {
			h.globs = []string{verifC03Globs[0]}
		} else if h.pool {
			h.globs = []string{verifC03Globs[nd.Choice("cA.glob.pool", len(verifC03Globs))]}
		} else {
			h.globs = []string{nd.Str("cA.glob")}
		}
		h.gc = &verifGlobClient{verifClient: c, redirectGlobs: h.globs}
		h.st.globClients = []*verifGlobClient{h.gc}
	}
	return h
}

// storage faults: crossed with everything in the thorough tier; in the quick tier only for arbitrary-string mode
func (h *verifC03) faultChoice() bool {
	if h.reduced {
		return h.scn == 3
	}
	return nd.Choice("faults", 2) == 1
}

func (h *verifC03) badForm() bool {
	if h.reduced {
		return h.scn == 4
	}
	return nd.Choice("req.badform", 2) == 1
}

func (h *verifC03) client() Client {
	if h.gc != nil {
		return h.gc
	}
	return h.c
}

func (h *verifC03) drawURI(tag string) string {
	if h.pool {
		if h.absolute {
			return verifC03FlowRequested[nd.Choice(tag+".pool", len(verifC03FlowRequested))]
		}
		return verifC03Requested[nd.Choice(tag+".pool", len(verifC03Requested))]
	}
	u := nd.Str(tag)
	if h.absolute {
		// an absolute URI (http.Redirect resolves a relative one against the request path)
		nd.Assume(nd.Or(nd.Or(u == "", nd.HasPrefix(u, "https://")), nd.Or(nd.HasPrefix(u, "http://"), nd.HasPrefix(u, "app://"))))
	}
	return u
}

func verifC03RT(tag string) string {
	rt := nd.Str(tag)
	nd.Assume(nd.Or(nd.Or(rt == "code", rt == "id_token token"), nd.Or(rt == "id_token", rt == "")))
	return rt
}

// a malformed glob in the registration is a server-side configuration error: nothing may be derived from it
func (h *verifC03) globsWellFormed() bool {
	for _, g := range h.globs {
		if _, err := doublestar.Match(g, ""); err != nil {
			return false
		}
	}
	return true
}

func VerifC03Predicate() {
	h := verifC03Client(false)
	uri := h.drawURI("req.redirect_uri")
	rt := verifC03RT("req.response_type")
	err := ValidateAuthReqRedirectURI(h.client(), uri, oidc.ResponseType(rt))
	if err == nil {
		nd.Cover("uri-accepted")
		nd.Assert(h.allowed(uri, rt), "an accepted redirect_uri is registered (exactly, by opted-in glob, or native loopback variant) and its scheme is allowed for the client")
		return
	}
	nd.Cover("uri-rejected")
	e := oidc.DefaultToServerError(err, "x")
	if h.globsWellFormed() {
		nd.Assert(e.IsRedirectDisabled(), "a redirect_uri rejection must be shown, never redirected")
	} else {
		nd.Cover("malformed-glob")
		nd.Assert(e.IsRedirectDisabled(), "a redirect_uri rejection caused by a malformed registered glob must be shown, never redirected")
	}
	// no false rejection of the plain case: exactly registered https URI of a web / user-agent client
	if h.c.appType != ApplicationTypeNative && strings.HasPrefix(uri, "https://") {
		for _, r := range h.c.redirectURIs {
			nd.Assert(r != uri, "an exactly registered https redirect_uri is accepted")
		}
	}
}

// ---------------- the authorization endpoint ----------------

func verifC03Request(h *verifC03) {
	rich := nd.Param("rich", 0) == 1
	h.form = url.Values{}
	// an empty parameter is an absent one for every parameter read here
	h.hasClient, h.hasURI = true, true
	h.clientID = nd.Str("req.client_id")
	h.form.Set("client_id", h.clientID)
	h.uri = h.drawURI("req.redirect_uri")
	if !h.pool {
		// arbitrary-string mode: requested URIs without a query component (the pool has one with a query)
		if u, err := url.Parse(h.uri); err == nil {
			nd.Assume(u.RawQuery == "")
		}
	}
	h.form.Set("redirect_uri", h.uri)
	h.rt = nd.Str("req.response_type")
	h.mode = nd.Str("req.response_mode")
	if rich {
		nd.Assume(nd.Or(nd.Or(h.rt == "code", h.rt == "id_token token"), nd.Or(h.rt == "id_token", h.rt == "")))
		nd.Assume(nd.Or(nd.Or(h.mode == "", h.mode == "query"), nd.Or(h.mode == "fragment", h.mode == "form_post")))
	} else {
		nd.Assume(nd.Or(h.rt == "code", nd.Or(h.rt == "id_token", h.rt == "")))
		nd.Assume(h.mode == "")
	}
	h.form.Set("response_type", h.rt)
	h.state = "st4te"
	if rich {
		h.state = nd.Str("req.state")
	}
	h.form.Set("state", h.state)
	h.form.Set("response_mode", h.mode)
	withScope := true
	if h.reduced {
		withScope = h.scn != 1
	} else {
		withScope = nd.Choice("req.scope", 2) == 1
	}
	if withScope {
		if rich {
			h.form.Set("scope", nd.Str("req.scope"))
		} else {
			h.form.Set("scope", "openid")
		}
	}
	prompt := nd.Str("req.prompt")
	if !rich {
		nd.Assume(nd.Or(prompt == "", prompt == "none login"))
	}
	h.form.Set("prompt", prompt)
	if rich {
		h.form.Set("id_token_hint", nd.Str("req.id_token_hint"))
		h.form.Set("request", nd.Str("req.request"))
	}
}

// sameTarget: loc leads to the same scheme, authority and path as the validated uri
func verifC03SameTarget(loc, uri string) bool {
	l, err1 := url.Parse(loc)
	u, err2 := url.Parse(uri)
	if err1 != nil || err2 != nil {
		return false
	}
	return l.Scheme == u.Scheme && l.Host == u.Host && l.Path == u.Path && l.Opaque == u.Opaque
}

const verifC03Login = "/login?authRequestID=authreq-1"

func (h *verifC03) checkAuthorize(rec *verifRec) {
	loc := rec.hdr.Get("Location")
	ok := false
	if h.hasClient && h.hasURI {
		ok = nd.And(h.clientID == "clientA", h.allowed(h.uri, h.rt))
	}
	if rec.status == 302 {
		nd.Cover("authorize-redirect")
		nd.Assert(h.clientID != "" && h.uri != "", "a redirect only when client_id and redirect_uri were sent")
		nd.Assert(ok, "the authorization endpoint redirects only when the requested redirect_uri is registered for the client and allowed for its type")
		if h.st.authReq != nil {
			nd.Cover("authorize-to-login")
			nd.Assert(loc == verifC03Login, "after storing the request the user agent is sent to the client's login URL")
			nd.Assert(h.st.authReq.redirectURI == h.uri && h.st.authReq.clientID == "clientA", "the stored auth request carries the validated redirect_uri and client")
		} else {
			nd.Cover("authorize-error-redirect")
			nd.Assert(verifC03SameTarget(loc, h.uri), "an error redirect goes to the validated redirect_uri")
		}
		return
	}
	nd.Cover("authorize-direct-answer")
	nd.Assert(rec.status >= 400, "a direct answer is an error status")
	nd.Assert(loc == "", "a direct answer carries no Location")
	nd.Assert(h.st.authReq == nil, "nothing is stored for a refused request")
	if !ok {
		nd.Cover("authorize-unregistered-direct")
	}
}

func verifC03Env() *verifC03 {
	h := verifC03Client(true)
	verifSetupSigning(h.st, "RS256")
	h.st.faultsOn = h.faultChoice()
	h.p = verifProvider(h.st)
	verifC03Request(h)
	return h
}

func VerifC03AuthorizeLegacy() {
	h := verifC03Env()
	rec := newVerifRec()
	Authorize(rec, verifWithIssuer(nd.Request("GET", "/authorize", h.form, "", "", false, h.badForm())), h.p)
	h.checkAuthorize(rec)
}

func VerifC03AuthorizeServer() {
	h := verifC03Env()
	ws := verifWebServer(h.p)
	rec := newVerifRec()
	ws.authorizeHandler(rec, verifWithIssuer(nd.Request("GET", "/authorize", h.form, "", "", false, h.badForm())))
	h.checkAuthorize(rec)
}

// ---------------- the callback ----------------
// Induction step: a stored request carries a redirect_uri that was validated for its client when it was
// stored (checkAuthorize shows that); the callback may send the user agent only there.

func VerifC03Callback() {
	h := verifC03Client(true)
	verifSetupSigning(h.st, "RS256")
	h.st.faultsOn = h.faultChoice()
	h.p = verifProvider(h.st)
	stored := h.drawURI("A.redirect_uri")
	nd.Assume(stored != "")
	rt := nd.Str("A.response_type")
	nd.Assume(nd.Or(rt == "code", nd.Or(rt == "id_token token", rt == "id_token")))
	mode := nd.Str("A.response_mode")
	nd.Assume(nd.Or(nd.Or(mode == "", mode == "query"), nd.Or(mode == "fragment", mode == "form_post")))
	if !h.pool {
		// the form_post page is explored on the candidate pool only (html/template normalises the action URL)
		nd.Assume(mode != "form_post")
	}
	A := &verifAuthReq{id: "authreq-1", clientID: nd.Str("A.client"), subject: nd.Str("A.sub"), state: nd.Str("A.state"), nonce: nd.Str("A.nonce"),
		redirectURI: stored, scopes: []string{"openid"}, responseType: oidc.ResponseType(rt), responseMode: oidc.ResponseMode(mode), done: nd.Bool("A.done")}
	h.st.authReq = A
	form := url.Values{}
	form.Set("id", nd.Str("cb.id"))
	rec := newVerifRec()
	AuthorizeCallback(rec, verifWithIssuer(nd.Request("GET", "/authorize/callback", form, "", "", false, h.badForm())), h.p)
	loc := rec.hdr.Get("Location")
	switch {
	case rec.status == 302:
		nd.Cover("callback-redirect")
		nd.Assert(form.Get("id") == "authreq-1", "a callback redirect only for the stored request")
		nd.Assert(verifC03SameTarget(loc, stored), "the callback redirects to the stored (validated) redirect_uri")
	case rec.status == 200:
		nd.Cover("callback-form-post")
		nd.Assert(form.Get("id") == "authreq-1" && mode == "form_post", "a form-post page only for a stored form_post request")
		action, ok := nd.FormAction(rec.body())
		nd.Assert(ok && (action == stored || action == "#ZgotmplZ"), "the form posts to the stored (validated) redirect_uri")
	default:
		nd.Cover("callback-direct-answer")
		nd.Assert(rec.status >= 400 && loc == "", "a direct answer is an error without Location")
	}
}
