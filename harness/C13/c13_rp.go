package rp

// C13 — the remote JWKS key set under concurrency, rotation and fetch failures.
// Two callers verify tokens against one remoteKeySet while an environment thread cancels contexts and
// releases the (held) JWKS responses. The macro order of events is a scripted choice; everything between
// the scheduling points (mutex, go, close, select, receive, WaitGroup) is interleaved exhaustively by the
// engine's scheduler within the preemption bound. Natively the same harness runs with real goroutines;
// the gates (channels) and Settle make the macro order deterministic.

import (
	"context"
	"errors"
	"io"
	"net/http"
	"strings"
	"sync"

	jose "github.com/go-jose/go-jose/v4"

	nd "github.com/zitadel/oidc/v3/internal/verifnd"
	"github.com/zitadel/oidc/v3/pkg/crypto"
	"github.com/zitadel/oidc/v3/pkg/oidc"
)

// what the JWKS endpoint answers to the k-th download
const (
	verifC13ServeK1 = iota
	verifC13ServeK1K2
	verifC13ServeK2
	verifC13ServeK1Unknown // K1 followed by an entry of an unknown kty (last position)
	verifC13Serve500
	verifC13ServeBadJSON
	verifC13NServe
)

type verifC13RT struct {
	mu          sync.Mutex
	calls       int
	inflight    int
	maxInflight int
	entered     []chan struct{}
	release     []chan struct{}
	kind        []int // answer kind per download
	keys        []jose.JSONWebKey
	ctxFailed   int // downloads that ended because their request context was cancelled
}

func (t *verifC13RT) RoundTrip(r *http.Request) (*http.Response, error) {
	t.mu.Lock()
	k := t.calls
	t.calls++
	t.inflight++
	if t.inflight > t.maxInflight {
		t.maxInflight = t.inflight
	}
	t.mu.Unlock()
	if k >= len(t.release) {
		return nil, errors.New("more downloads than the harness provides for")
	}
	// what the endpoint is going to answer to this download (decided when the request arrives)
	kind := nd.Choice("serve", verifC13NServe)
	t.mu.Lock()
	t.kind[k] = kind
	t.mu.Unlock()
	close(t.entered[k])
	select {
	case <-t.release[k]:
	case <-r.Context().Done():
		t.mu.Lock()
		t.inflight--
		t.ctxFailed++
		t.mu.Unlock()
		return nil, r.Context().Err()
	}
	t.mu.Lock()
	t.inflight--
	t.mu.Unlock()
	status, body := 200, ""
	switch kind {
	case verifC13ServeK1:
		body = nd.JWKS(t.keys[:1], -1)
	case verifC13ServeK1K2:
		body = nd.JWKS(t.keys[:2], -1)
	case verifC13ServeK2:
		body = nd.JWKS(t.keys[1:2], -1)
	case verifC13ServeK1Unknown:
		body = nd.JWKS(t.keys[:1], 1)
	case verifC13Serve500:
		status, body = 500, "upstream failure"
	default:
		body = "{not json"
	}
	return &http.Response{StatusCode: status, Status: "scripted", Body: io.NopCloser(strings.NewReader(body)), Header: http.Header{}, Request: r}, nil
}

func verifC13Serves(kind, key int) bool { // does an answer of this kind carry key (0 = K1, 1 = K2)?
	switch kind {
	case verifC13ServeK1, verifC13ServeK1Unknown:
		return key == 0
	case verifC13ServeK1K2:
		return key == 0 || key == 1
	case verifC13ServeK2:
		return key == 1
	}
	return false
}

type verifC13Caller struct {
	key       int // 0 K1, 1 K2, 2 K3 (never served)
	jws       *jose.JSONWebSignature
	ctx       context.Context
	cancel    context.CancelFunc
	cancelled bool
	ok        bool
	err       error
}

func verifC13Token(priv any, kid string) *jose.JSONWebSignature {
	signer, err := jose.NewSigner(jose.SigningKey{Algorithm: jose.RS256, Key: &jose.JSONWebKey{Key: priv, KeyID: kid}}, nil)
	if err != nil {
		nd.Assume(false)
	}
	tok, err := crypto.Sign(&oidc.TokenClaims{Issuer: "https://op.example.com", Subject: "user-1"}, signer)
	if err != nil {
		nd.Assume(false)
	}
	jws, err := jose.ParseSigned(tok, []jose.SignatureAlgorithm{jose.RS256})
	if err != nil {
		nd.Assume(false)
	}
	return jws
}

func VerifC13Concurrent() {
	kids := []string{"k1", "k2", "k3"}
	var privs []any
	var pubs []jose.JSONWebKey
	for _, kid := range kids {
		priv, pub := nd.KeyPair(kid, "RS256")
		privs = append(privs, priv)
		pubs = append(pubs, jose.JSONWebKey{Key: pub, KeyID: kid, Use: "sig", Algorithm: "RS256"})
	}
	const maxFetch = 3
	rt := &verifC13RT{keys: pubs}
	for k := 0; k < maxFetch; k++ {
		rt.entered = append(rt.entered, make(chan struct{}))
		rt.release = append(rt.release, make(chan struct{}))
		rt.kind = append(rt.kind, -1) // drawn when the download happens
	}
	ks := &remoteKeySet{httpClient: &http.Client{Transport: rt}, jwksURL: "https://op.example.com/keys"}
	cached := nd.Choice("cache0", 2) == 1
	if cached {
		ks.cachedKeys = []jose.JSONWebKey{pubs[0]}
	}
	callers := make([]*verifC13Caller, 2)
	for i := range callers {
		c := &verifC13Caller{key: nd.Choice("caller.key", 3)}
		c.jws = verifC13Token(privs[c.key], kids[c.key])
		c.ctx, c.cancel = context.WithCancel(context.Background())
		callers[i] = c
	}
	var wg sync.WaitGroup
	start := func(c *verifC13Caller) {
		wg.Add(1)
		go func() {
			defer wg.Done()
			payload, err := ks.VerifySignature(c.ctx, c.jws)
			c.ok, c.err = payload != nil && err == nil, err
		}()
	}
	A, B := callers[0], callers[1]
	script := nd.Choice("script", 4)
	switch script {
	case 0: // one after the other; responses are not held
		for k := range rt.release {
			close(rt.release[k])
		}
		start(A)
		wg.Wait()
		start(B)
	case 1: // B arrives while A's download is in flight (if there is one), then the response goes out
		start(A)
		nd.Settle()
		start(B)
		nd.Settle()
		for k := range rt.release {
			close(rt.release[k])
		}
	case 2: // as 1, but A (the caller that started the download) gives up before the response goes out
		start(A)
		nd.Settle()
		start(B)
		nd.Settle()
		A.cancelled = true
		A.cancel()
		nd.Settle()
		for k := range rt.release {
			close(rt.release[k])
		}
	case 3: // as 1, but B (a waiter) gives up before the response goes out
		start(A)
		nd.Settle()
		start(B)
		nd.Settle()
		B.cancelled = true
		B.cancel()
		nd.Settle()
		for k := range rt.release {
			close(rt.release[k])
		}
	}
	wg.Wait()
	nd.Settle() // a download that nobody waits for any more finishes too

	if nd.Param("dbg", 0) == 1 {
		nd.Assert(A.err == nil, "dbg: A.err is nil")
		nd.Assert(len(ks.cachedKeys) == 1, "dbg: one cached key")
		nd.Assert(A.ok, "dbg: A ok")
	}
	// ---- what happened
	rt.mu.Lock()
	calls, maxInflight, ctxFailed := rt.calls, rt.maxInflight, rt.ctxFailed
	rt.mu.Unlock()
	nd.Assert(maxInflight <= 1, "concurrent cache misses share a single download: never two downloads in flight")
	nd.Assert(calls <= 2, "every verification triggers at most one refresh")
	serverFailed, servedOK := false, false
	for k := 0; k < calls && k < maxFetch; k++ {
		if rt.kind[k] == verifC13Serve500 || rt.kind[k] == verifC13ServeBadJSON {
			serverFailed = true
		} else {
			servedOK = true
		}
	}
	for i, c := range callers {
		served := cached && c.key == 0
		for k := 0; k < calls && k < maxFetch; k++ {
			if verifC13Serves(rt.kind[k], c.key) {
				served = true
			}
		}
		if c.ok {
			nd.Cover("verified")
			nd.Assert(served, "a token verifies only if its key was cached or served by a download of this run")
			nd.Assert(c.key != 2, "a token signed by a key the endpoint never serves is rejected")
		} else {
			nd.Cover("rejected")
			// must succeed: its own context is live, and every download of this run was (going to be) answered
			// properly with a key set carrying its key - or none was needed because the key was cached
			allServe := calls > 0
			for k := 0; k < calls && k < maxFetch; k++ {
				if !verifC13Serves(rt.kind[k], c.key) {
					allServe = false
				}
			}
			if !c.cancelled && !serverFailed && (allServe || (calls == 0 && cached && c.key == 0)) {
				if ctxFailed > 0 {
					nd.Cover("failed-by-foreign-cancellation")
				}
				nd.Assert(false, "a caller whose context is live and whose key every download of the run serves is verified (not failed by another caller's cancellation or by a skipped entry of the key set)")
			}
		}
		_ = i
	}
	// a failed or malformed download never discards previously cached keys
	ks.mu.Lock()
	n := len(ks.cachedKeys)
	ks.mu.Unlock()
	if cached {
		nd.Assert(n >= 1, "previously cached keys survive a failed download")
		if !servedOK {
			nd.Assert(n == 1 && ks.cachedKeys[0].KeyID == "k1", "the cache is exactly what it was when no download succeeded")
		}
	}
	if !servedOK {
		nd.Assert(n == 0 || cached, "a failed download does not populate the cache")
	}
	if calls > 0 && rt.kind[0] == verifC13ServeK1Unknown && !serverFailed {
		nd.Cover("unknown-kty-skipped")
	}
}
