package op

// C07 — refresh tokens stay bound to their client and can only narrow scope.

import (
	"net/url"
	"strings"
	"time"

	nd "github.com/zitadel/oidc/v3/internal/verifnd"
	"github.com/zitadel/oidc/v3/pkg/oidc"
)

type verifC07 struct {
	st         *verifStorage
	R          *verifRefreshReq
	orig       []string
	reqScopes  []string
	form       url.Values
	cr         *verifCreds
	token      string
	formClient string
	scopeSent  bool
}

func verifC07Setup() *verifC07 {
	h := &verifC07{st: &verifStorage{}}
	grants := []oidc.GrantType{oidc.GrantTypeRefreshToken}
	nm := nd.Param("authmethods", 3)
	h.st.clients = []*verifClient{verifNewClient("cA", "clientA", grants, nm), verifNewClient("cB", "clientB", grants, nm)}
	verifSetupSigning(h.st, "RS256")
	no := nd.Choice("R.nscopes", nd.Param("maxscopes", 2)+1)
	for i := 0; i < no; i++ {
		s := nd.Str("R.scope")
		nd.Assume(s != "" && !strings.Contains(s, " "))
		h.orig = append(h.orig, s)
	}
	h.R = &verifRefreshReq{clientID: "clientA", subject: nd.Str("R.sub"), scopes: append([]string{}, h.orig...),
		audience: []string{"clientA"}, authTime: time.Unix(nd.Int("R.authtime", 1<<30, 1<<32), 0)}
	h.st.refreshReq = h.R
	h.st.refreshTok = nd.Str("rt0")
	nd.Assume(h.st.refreshTok != "")

	h.token, h.formClient = nd.Str("req.refresh_token"), nd.Str("req.client_id")
	nr := nd.Choice("req.nscopes", nd.Param("maxreqscopes", 2)+1)
	for i := 0; i < nr; i++ {
		s := nd.Str("req.scope")
		nd.Assume(s != "" && !strings.Contains(s, " "))
		h.reqScopes = append(h.reqScopes, s)
	}
	h.form = url.Values{}
	h.form.Set("grant_type", "refresh_token")
	h.form.Set("refresh_token", h.token)
	h.form.Set("client_id", h.formClient)
	if len(h.reqScopes) > 0 || nd.Choice("req.emptyscopeparam", 2) == 1 {
		// an empty scope parameter is not the same as an absent one: it decodes to one empty scope
		h.form.Set("scope", strings.Join(h.reqScopes, " "))
		h.scopeSent = true
	}
	h.cr = &verifCreds{mode: nd.Choice("cred.mode", 4), id: nd.Str("cred.id"), secret: nd.Str("cred.secret")}
	return h
}

func (h *verifC07) claimedClient() string {
	if h.cr.mode == 1 {
		return h.cr.id
	}
	return h.formClient
}

func (h *verifC07) subset() bool {
	ok := true
	for _, s := range h.reqScopes {
		ok = nd.And(ok, nd.Contains(h.orig, s))
	}
	return ok
}

func (h *verifC07) check(rec *verifRec, p *Provider) {
	cA := h.st.clients[0]
	resp, isResp := rec.tokenResponse()
	if rec.status == 200 && isResp && rec.hasTokens() {
		nd.Cover("refreshed")
		nd.Assert(h.token == h.st.refreshTok, "the presented refresh token is the stored one")
		nd.Assert(h.claimedClient() == h.R.clientID, "refreshed by the client the token was issued to")
		switch cA.authMethod {
		case oidc.AuthMethodNone:
		case oidc.AuthMethodBasic, oidc.AuthMethodPost:
			nd.Assert(nd.Contains(h.st.secretOK, h.R.clientID), "confidential client authenticated with its registered secret")
			if cA.authMethod == oidc.AuthMethodPost {
				nd.Assert(p.config.AuthMethodPost, "client_secret_post client only when POST authentication is enabled")
			}
		default:
			nd.Assert(false, "private_key_jwt client cannot refresh with a secret")
		}
		nd.Assert(ValidateGrantType(cA, oidc.GrantTypeRefreshToken), "client is registered for the refresh_token grant")
		nd.Assert(p.config.GrantTypeRefreshToken, "refresh grant enabled on the provider")
		nd.Assert(h.subset(), "requested scopes are a subset of the granted scopes")
		nd.Assert(len(h.reqScopes) > 0 || !h.scopeSent, "an empty scope parameter is not a subset request")
		if len(h.reqScopes) > 0 {
			nd.Assert(h.R.setCurrentCalls == 1 && nd.EqStrs(h.R.currentScopes, h.reqScopes), "narrowed scopes handed to the request")
		} else {
			nd.Assert(h.R.setCurrentCalls == 0, "scopes untouched when none requested")
		}
		nd.Assert(len(h.st.created) == 1, "exactly one token creation")
		if len(h.st.created) == 1 {
			c := h.st.created[0]
			tr, _ := c.req.(*verifRefreshReq)
			nd.Assert(tr == h.R, "new tokens are created for the stored refresh request (subject, audience, auth time kept)")
			nd.Assert(c.withRefresh && c.currentRefresh == h.st.refreshTok, "the presented refresh token is handed to the storage for rotation")
			nd.Assert(resp.RefreshToken == c.newRefresh, "response carries the storage's new refresh token")
		}
		for _, s := range h.R.scopes {
			nd.Assert(nd.Contains(h.orig, s), "granted scope never grows")
		}
	} else {
		nd.Cover("refused")
		nd.Debugf("status=%d chunks=%q", rec.status, rec.chunks)
		nd.Assert(rec.status >= 400, "refusal is a 4xx/5xx status")
		nd.Assert(!rec.hasTokens(), "no tokens in a refusal")
		nd.Assert(len(h.st.created) == 0, "nothing issued on refusal")
		for _, s := range h.R.scopes {
			nd.Assert(nd.Contains(h.orig, s), "granted scope never grows (refusal)")
		}
	}
	if !h.subset() {
		nd.Cover("superset-requested")
		nd.Assert(len(h.st.created) == 0, "superset or disjoint scope request issues nothing")
	}
}

func VerifC07Legacy() {
	h := verifC07Setup()
	p := verifProvider(h.st)
	rec := newVerifRec()
	Exchange(rec, verifTokenRequest(h.form, h.cr, false), p)
	h.check(rec, p)
}

func VerifC07Server() {
	h := verifC07Setup()
	p := verifProvider(h.st)
	ws := verifWebServer(p)
	rec := newVerifRec()
	ws.tokensHandler(rec, verifTokenRequest(h.form, h.cr, false))
	h.check(rec, p)
}
