package op

// C15 — token exchange needs live subject / actor tokens of the declared supported type and
// returns what it declares. Token endpoint, grant_type token-exchange, both routers, one step
// from an arbitrary storage state.

import (
	"encoding/json"
	"net/url"
	"strings"
	"time"

	jose "github.com/go-jose/go-jose/v4"

	nd "github.com/zitadel/oidc/v3/internal/verifnd"
	"github.com/zitadel/oidc/v3/pkg/crypto"
	"github.com/zitadel/oidc/v3/pkg/oidc"
)

// verifC15Tok is one presented token (subject or actor).
type verifC15Tok struct {
	token    string
	declared string
	kind     int // 0 sealed id:sub, 1 sealed arbitrary plaintext, 2 provider-signed JWT access token, 3 foreign-signed JWT, 4 arbitrary string as refresh token, 5 provider-signed ID token, 6 arbitrary string under an arbitrary type
	id, sub  string
	iss      string
	exp, iat int64
	plain    string
}

type verifC15 struct {
	st        *verifStorage
	storage   Storage
	full      bool
	p         *Provider
	form      url.Values
	cr        *verifCreds
	subj      *verifC15Tok
	actor     *verifC15Tok
	requested string
	reqScopes []string
}

// verifC15Type draws a token type: an arbitrary string (the four registered constants, the empty string
// and every other string are all inside; paths fork only where the code looks at it).
func verifC15Type(tag string) string {
	return nd.Str(tag)
}

func (h *verifC15) mkTok(tag string, nkinds int, declared string) *verifC15Tok {
	t := &verifC15Tok{kind: nd.Choice(tag+".kind", nkinds), id: nd.Str(tag + ".id"), sub: nd.Str(tag + ".sub")}
	t.declared = declared
	if declared == "" {
		t.declared = verifC15Type(tag + ".type")
	}
	sign := func(claims any, priv any, kid string) string {
		signer, err := jose.NewSigner(jose.SigningKey{Algorithm: jose.RS256, Key: &jose.JSONWebKey{Key: priv, KeyID: kid}}, nil)
		if err != nil {
			nd.Assume(false)
		}
		tok, err := crypto.Sign(claims, signer)
		if err != nil {
			nd.Assume(false)
		}
		return tok
	}
	switch t.kind {
	case 0:
		nd.Assume(!strings.Contains(t.id, ":") && !strings.Contains(t.sub, ":"))
		t.token, _ = h.p.crypto.Encrypt(t.id + ":" + t.sub)
		nd.Assume(!strings.Contains(t.token, ".")) // raw URL base64 has no '.'
	case 1:
		t.plain = nd.Str(tag + ".plain")
		t.token, _ = h.p.crypto.Encrypt(t.plain)
		nd.Assume(!strings.Contains(t.token, "."))
	case 2, 3:
		t.iss, t.exp = nd.Str(tag+".iss"), nd.Int(tag+".exp", 0, 1<<33)
		claims := &oidc.AccessTokenClaims{TokenClaims: oidc.TokenClaims{Issuer: t.iss, Subject: t.sub, JWTID: t.id,
			Audience: oidc.Audience{"clientA"}, Expiration: oidc.Time(t.exp)}}
		priv, kid := h.st.signPriv, h.st.signKeyID
		if t.kind == 3 {
			priv, _ = nd.KeyPair("foreign-key", "RS256")
			if nd.Choice(tag+".foreign.kid", 2) == 1 {
				kid = "foreign-key"
			}
		}
		t.token = sign(claims, priv, kid)
	case 4:
		// an arbitrary string presented as a refresh token
		t.token = nd.Str(tag + ".raw")
		nd.Assume(t.token != "")
		t.declared = string(oidc.RefreshTokenType)
	case 6:
		// an arbitrary string (which may be anything, including a genuine token) under an arbitrary type
		t.token = nd.Str(tag + ".raw")
		nd.Assume(t.token != "")
	default:
		t.iss, t.exp, t.iat = nd.Str(tag+".iss"), nd.Int(tag+".exp", 0, 1<<33), nd.Int(tag+".iat", 0, 1<<33)
		claims := &oidc.IDTokenClaims{TokenClaims: oidc.TokenClaims{Issuer: t.iss, Subject: t.sub,
			Audience: oidc.Audience{"clientA"}, Expiration: oidc.Time(t.exp), IssuedAt: oidc.Time(t.iat)}}
		t.token = sign(claims, h.st.signPriv, h.st.signKeyID)
	}
	return t
}

func verifC15Env() *verifC15 {
	h := &verifC15{st: &verifStorage{}}
	h.st.clients = []*verifClient{verifNewClient("cA", "clientA", []oidc.GrantType{oidc.GrantTypeTokenExchange}, 2)}
	verifSetupSigning(h.st, "RS256")
	h.storage, h.full = verifPickStorage(h.st)
	// The three dimensions of a request are handled by the code one after the other; they are explored
	// one at a time with the others fixed at a valid representative (scenario 3, thorough: crossed with
	// reduced kinds).
	scenario := nd.Choice("scenario", 3+nd.Param("cross", 0))
	if !h.full {
		nd.Assume(scenario == 2) // without the storage capability nothing token-specific is reached
	}
	h.st.teVeto = nd.Bool("te.veto")
	h.st.teDefaults = nd.Bool("te.defaults")
	h.st.refreshReq = &verifRefreshReq{clientID: "clientA", subject: nd.Str("R.sub"), audience: []string{"clientA"}, authTime: time.Unix(1<<30, 0)}
	h.st.refreshTok = nd.Str("rt0")
	nd.Assume(h.st.refreshTok != "")
	h.p = verifProvider(h.storage)
	h.cr = &verifCreds{mode: 1, id: "clientA", secret: nd.Str("cred.secret")}
	h.form = url.Values{}
	h.form.Set("grant_type", string(oidc.GrantTypeTokenExchange))
	switch scenario {
	case 0:
		h.subj = h.mkTok("subj", nd.Param("tokkinds", 6), "")
		h.requested = string(oidc.AccessTokenType)
	case 1:
		h.subj = h.mkTok("subj", 1, string(oidc.AccessTokenType))
		h.actor = h.mkTok("actor", nd.Param("tokkinds", 6), "")
		h.requested = string(oidc.AccessTokenType)
	case 2:
		h.subj = h.mkTok("subj", 1, string(oidc.AccessTokenType))
		if h.full && nd.Choice("actor.given", 2) == 1 {
			h.actor = h.mkTok("actor", 1, string(oidc.AccessTokenType))
		}
		h.requested = verifC15Type("requested")
	default:
		h.subj = h.mkTok("subj", 2, "")
		if nd.Choice("actor.given", 2) == 1 {
			h.actor = h.mkTok("actor", 2, "")
		}
		h.requested = verifC15Type("requested")
	}
	h.form.Set("subject_token", h.subj.token)
	if h.subj.declared != "" {
		h.form.Set("subject_token_type", h.subj.declared)
	}
	if h.actor != nil {
		h.form.Set("actor_token", h.actor.token)
		if h.actor.declared != "" {
			h.form.Set("actor_token_type", h.actor.declared)
		}
	}
	if h.requested != "" {
		h.form.Set("requested_token_type", h.requested)
	}
	switch nd.Choice("req.scopes", 2) {
	case 1:
		h.reqScopes = []string{"openid", "urn:custom:scope"}
	}
	if len(h.reqScopes) > 0 {
		h.form.Set("scope", strings.Join(h.reqScopes, " "))
	}
	return h
}

// justified: the necessary condition for the framework to treat tok as a valid token of its declared
// type, and what it must tell the storage about it (token id or token, subject).
func (h *verifC15) justified(t *verifC15Tok, gotIDOrToken, gotSubject string, what string) {
	nowNs := nd.ClockFirst()
	if t.kind == 6 {
		return // nothing is known about an arbitrary string: it may be a genuine token of any kind
	}
	switch oidc.TokenType(t.declared) {
	case oidc.AccessTokenType:
		switch t.kind {
		case 0:
			nd.Cover(what + "-opaque-access-token")
			nd.Assert(gotIDOrToken == t.id && gotSubject == t.sub, what+": the storage is told the id and subject the opaque token carries")
		case 1:
			nd.Assert(t.plain == gotIDOrToken+":"+gotSubject, what+": an opaque token counts only as exactly id:subject")
		case 2, 5:
			if t.kind == 2 {
				nd.Cover(what + "-jwt-access-token")
			}
			nd.Assert(t.iss == verifIssuer, what+": a JWT access token must name this issuer")
			nd.Assert(t.exp*1000000000 > nowNs-2000000000, what+": a JWT access token must not be expired")
			nd.Assert(gotSubject == t.sub, what+": subject is the token's")
			if t.kind == 2 {
				nd.Assert(gotIDOrToken == t.id, what+": token id is the token's jti")
			}
		default:
			nd.Assert(false, what+": a foreign-signed JWT is not an access token of this provider")
		}
	case oidc.RefreshTokenType:
		if t.kind == 4 {
			nd.Cover(what + "-refresh-token")
		}
		nd.Assert(t.token == h.st.refreshTok, what+": a refresh token must be one the storage knows")
		nd.Assert(gotIDOrToken == t.token && gotSubject == h.st.refreshReq.subject, what+": the storage is told the refresh token and the subject it belongs to")
	case oidc.IDTokenType:
		nd.Assert(t.kind == 5 || t.kind == 2, what+": an ID token must be signed by this provider")
		if t.kind == 5 {
			nd.Cover(what + "-id-token")
		}
		nd.Assert(t.iss == verifIssuer, what+": an ID token must name this issuer")
		nd.Assert(t.exp*1000000000 > nowNs-2000000000, what+": an ID token must not be expired")
		nd.Assert(gotIDOrToken == t.token && gotSubject == t.sub, what+": the storage is told the token and its subject")
	default:
		nd.Assert(false, what+": the declared token type is not one the provider can validate")
	}
}

func (r *verifRec) teResponse() (*oidc.TokenExchangeResponse, bool) {
	if len(r.chunks) != 1 {
		return nil, false
	}
	resp := new(oidc.TokenExchangeResponse)
	if err := json.Unmarshal(r.chunks[0], resp); err != nil {
		return nil, false
	}
	return resp, true
}

func (h *verifC15) check(rec *verifRec) {
	if rec.status != 200 {
		nd.Cover("refused")
		nd.Assert(rec.status >= 400, "a refusal is a non-success status")
		e, isErr := rec.oauthError()
		nd.Assert(isErr && e != "", "a refusal is an OAuth error document")
		nd.Assert(!rec.hasTokens(), "a refusal carries no token")
		nd.Assert(len(h.st.created) == 0, "no token is created for a refused exchange")
		return
	}
	nd.Cover("exchanged")
	resp, ok := rec.teResponse()
	nd.Assert(ok, "a success is a token-exchange response document")
	if !ok {
		return
	}
	nd.Assert(h.full, "token exchange only when the storage supports it")
	nd.Assert(nd.Contains(h.st.secretOK, "clientA"), "only for an authenticated client")
	nd.Assert(ValidateGrantType(h.st.clients[0], oidc.GrantTypeTokenExchange), "only for a client registered for token exchange")
	nd.Assert(!h.st.teVeto, "a storage veto is never overridden")
	nd.Assert(h.st.teValidated == 1 && len(h.st.teCreatedReqs) == 1, "the storage policy was consulted and the request stored exactly once")
	if len(h.st.teCreatedReqs) != 1 {
		return
	}
	req, isReq := h.st.teCreatedReqs[0].(*tokenExchangeRequest)
	nd.Assert(isReq, "request object is the framework's")
	if !isReq {
		return
	}
	h.justified(h.subj, req.exchangeSubjectTokenIDOrToken, req.exchangeSubject, "subject")
	nd.Assert(string(req.exchangeSubjectTokenType) == h.subj.declared, "subject token type handed on as declared")
	if h.actor != nil {
		nd.Cover("exchanged-with-actor")
		h.justified(h.actor, req.exchangeActorTokenIDOrToken, req.exchangeActor, "actor")
	} else {
		nd.Assert(req.exchangeActor == "" && req.exchangeActorTokenIDOrToken == "", "no actor without an actor token")
	}
	nd.Assert(req.clientID == "clientA", "request is bound to the authenticated client")

	// what the response declares is what it contains
	nd.Assert(resp.AccessToken != "", "a success response always contains the issued token")
	issued := resp.IssuedTokenType
	nd.Assert(issued == req.GetRequestedTokenType(), "issued_token_type is the type the storage policy settled on")
	switch issued {
	case oidc.AccessTokenType, oidc.RefreshTokenType:
		if issued == oidc.RefreshTokenType {
			nd.Cover("issued-refresh-token")
		} else {
			nd.Cover("issued-access-token")
		}
		nd.Assert(len(h.st.created) == 1, "exactly one token created by the storage")
		if len(h.st.created) != 1 {
			return
		}
		c := h.st.created[0]
		nd.Assert(c.req == TokenRequest(req), "token created for the stored exchange request")
		plain, err := h.p.crypto.Decrypt(resp.AccessToken)
		nd.Assert(err == nil && plain == c.id+":"+req.GetSubject(), "access_token is the provider's token for the id the storage created and the request's subject")
		nd.Assert(resp.TokenType == oidc.BearerToken, "token_type Bearer")
		if issued == oidc.RefreshTokenType {
			nd.Assert(c.withRefresh && resp.RefreshToken == c.newRefresh, "a refresh token is declared, so the storage's new refresh token is in the response")
		} else {
			nd.Assert(!c.withRefresh && resp.RefreshToken == "", "no refresh token unless declared")
		}
	case oidc.IDTokenType:
		nd.Cover("issued-id-token")
		nd.Assert(len(h.st.created) == 0, "an ID token is not a storage token")
		claims := new(oidc.IDTokenClaims)
		_, err := oidc.ParseToken(resp.AccessToken, claims)
		nd.Assert(err == nil && claims.Subject == req.GetSubject() && claims.Issuer == verifIssuer, "the ID token carries the request's subject and this issuer")
	default:
		nd.Assert(false, "issued_token_type must be a type the provider can issue (access, refresh or ID token)")
	}
	nd.Assert(nd.EqStrs([]string(resp.Scopes), req.GetScopes()), "scope in the response is the request's")
	nd.Assert(nd.EqStrs(req.GetScopes(), h.reqScopes), "scopes handed to the storage are the requested ones")
}

func VerifC15Legacy() {
	h := verifC15Env()
	rec := newVerifRec()
	Exchange(rec, verifTokenRequest(h.form, h.cr, false), h.p)
	h.check(rec)
}

func VerifC15Server() {
	h := verifC15Env()
	ws := verifWebServer(h.p)
	rec := newVerifRec()
	ws.tokensHandler(rec, verifTokenRequest(h.form, h.cr, false))
	h.check(rec)
}
