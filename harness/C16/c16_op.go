package op

// C16 — device grant: tokens only after user approval and only to the initiating client; the
// documented error for every other state; well-formed device authorization responses.

import (
	"encoding/json"
	"net/url"
	"time"

	nd "github.com/zitadel/oidc/v3/internal/verifnd"
	"github.com/zitadel/oidc/v3/pkg/oidc"
)

var verifC16Grants = []oidc.GrantType{oidc.GrantTypeDeviceCode, oidc.GrantTypeRefreshToken}

type verifC16 struct {
	st      *verifStorage
	storage Storage
	full    bool
	p       *Provider
	form    url.Values
	cr      *verifCreds
	who     string // the client the request claims to be
	code    string // the device code presented
}

func verifC16Env() *verifC16 {
	h := &verifC16{st: &verifStorage{}}
	h.st.clients = []*verifClient{verifNewClient("cA", "clientA", verifC16Grants, 3), verifNewClient("cB", "clientB", verifC16Grants, 3)}
	verifSetupSigning(h.st, "RS256")
	h.storage, h.full = verifPickStorage(h.st)
	h.p = verifProvider(h.storage)
	h.who = "clientA"
	if nd.Choice("caller", 2) == 1 {
		h.who = "clientB"
	}
	h.cr = &verifCreds{mode: nd.Choice("cred.mode", 2), id: h.who, secret: nd.Str("cred.secret")}
	h.form = url.Values{}
	h.form.Set("client_id", h.who)
	return h
}

// ---------------- polling the token endpoint ----------------

func (h *verifC16) pollState() {
	st := &DeviceAuthorizationState{ClientID: "clientA", Done: nd.Bool("D.done"), Denied: nd.Bool("D.denied"),
		Expires: time.Unix(nd.Int("D.expires", 1<<29, 1<<33), 0), Subject: nd.Str("D.sub"), AuthTime: time.Unix(1<<30, 0)}
	switch nd.Choice("D.scopes", 3) {
	case 1:
		st.Scopes = []string{oidc.ScopeOpenID}
	case 2:
		st.Scopes = []string{oidc.ScopeOpenID, oidc.ScopeOfflineAccess}
	}
	h.st.devState = st
	h.st.devClient, h.st.devCode = "clientA", nd.Str("dev0")
	nd.Assume(h.st.devCode != "")
	h.st.devErr = nd.Choice("D.lookup", 3)
	h.code = nd.Str("req.device_code")
	h.form.Set("grant_type", string(oidc.GrantTypeDeviceCode))
	h.form.Set("device_code", h.code)
}

func (h *verifC16) checkPoll(rec *verifRec, server bool) {
	st := h.st.devState
	found := len(h.st.devLookups) > 0 && h.st.devErr == 0 && h.who == "clientA" && h.code == h.st.devCode
	if rec.status == 200 {
		nd.Cover("device-tokens")
		resp, ok := rec.tokenResponse()
		nd.Assert(ok && resp.AccessToken != "", "a success carries an access token")
		if !ok {
			return
		}
		nd.Assert(h.full, "device grant only when the storage supports it")
		nd.Assert(len(h.st.devLookups) == 1, "the storage was asked for the state exactly once")
		if len(h.st.devLookups) != 1 {
			return
		}
		nd.Assert(h.st.devLookups[0].clientID == h.who && h.st.devLookups[0].deviceCode == h.code, "the state was looked up for the calling client and the presented device code")
		nd.Assert(found, "tokens only for a device code the storage knows for this very client")
		nd.Assert(st.Done, "tokens only after the user approved this device code")
		nd.Assert(!st.Denied, "never after the user denied it")
		c := h.st.client(h.who)
		if server {
			nd.Assert(nd.Or(c.authMethod == oidc.AuthMethodNone, nd.Contains(h.st.secretOK, h.who)), "confidential client authenticated")
		} else {
			nd.Assert(nd.Contains(h.st.secretOK, h.who) == IsConfidentialType(c), "authenticated iff confidential (web) application")
		}
		nd.Assert(len(h.st.created) == 1, "exactly one token created")
		if len(h.st.created) != 1 {
			return
		}
		nd.Assert(h.st.created[0].req == TokenRequest(st), "the token is created for the approved authorization (its subject and scopes)")
		plain, err := h.p.crypto.Decrypt(resp.AccessToken)
		nd.Assert(err == nil && plain == h.st.created[0].id+":"+st.Subject, "the access token carries the approving user's subject")
		nd.Assert(nd.EqStrs([]string(resp.Scope), st.Scopes), "scope in the response is the approved one")
		if len(st.Scopes) > 0 {
			nd.Cover("device-id-token")
			claims := new(oidc.IDTokenClaims)
			_, perr := oidc.ParseToken(resp.IDToken, claims)
			nd.Assert(perr == nil && claims.Subject == st.Subject && claims.Issuer == verifIssuer, "the ID token carries the approving user's subject")
			nd.Assert(nd.Contains([]string(claims.Audience), "clientA"), "the ID token is issued to the initiating client")
		} else {
			nd.Assert(resp.IDToken == "", "no ID token without the openid scope")
		}
		return
	}
	nd.Cover("device-refused")
	nd.Assert(rec.status >= 400, "a refusal is a non-success status")
	e, isErr := rec.oauthError()
	nd.Assert(isErr && e != "", "a refusal is an OAuth error document")
	nd.Assert(len(h.st.created) == 0 && !rec.hasTokens(), "no token on refusal")
	if len(h.st.devLookups) == 0 {
		return // refused before the state was consulted (client authentication, unsupported grant, parsing)
	}
	switch {
	case h.st.devErr == 1:
		nd.Cover("device-slow-down")
		nd.Assert(e == string(oidc.SlowDown), "a storage time-out answers slow_down")
	case !found:
		nd.Cover("device-unknown-code")
		nd.Assert(e == string(oidc.AccessDenied), "an unknown code, a code of another client or a storage error answers access_denied")
	case st.Denied:
		nd.Cover("device-denied")
		nd.Assert(e == string(oidc.AccessDenied), "after denial access_denied")
	case st.Done:
		nd.Cover("device-approved-but-refused") // client authentication / token creation problems
	default:
		nd.Assert(e == string(oidc.ExpiredToken) || e == string(oidc.AuthorizationPending), "before approval: expired_token or authorization_pending")
		if e == string(oidc.ExpiredToken) {
			nd.Cover("device-expired")
			nd.Assert(st.Expires.UnixNano() < nd.ClockLast(), "expired_token only after the expiry")
		} else {
			nd.Cover("device-pending")
			nd.Assert(st.Expires.UnixNano() >= nd.ClockFirst(), "authorization_pending only before the expiry")
		}
	}
}

func VerifC16PollLegacy() {
	h := verifC16Env()
	h.pollState()
	rec := newVerifRec()
	Exchange(rec, verifTokenRequest(h.form, h.cr, false), h.p)
	h.checkPoll(rec, false)
}

func VerifC16PollServer() {
	h := verifC16Env()
	h.pollState()
	ws := verifWebServer(h.p)
	rec := newVerifRec()
	ws.tokensHandler(rec, verifTokenRequest(h.form, h.cr, false))
	h.checkPoll(rec, true)
}

// ---------------- device authorization response ----------------

type verifDevDoc struct {
	DeviceCode              string `json:"device_code"`
	UserCode                string `json:"user_code"`
	VerificationURI         string `json:"verification_uri"`
	VerificationURIComplete string `json:"verification_uri_complete"`
	ExpiresIn               int    `json:"expires_in"`
	Interval                int    `json:"interval"`
}

var verifC16CharSets = []string{"BCD", "XÄ€", "7"}

func (h *verifC16) authzConfig() {
	cfg := DeviceAuthorizationConfig{
		Lifetime:     time.Duration(nd.Int("cfg.lifetime.s", 1, 1<<20)) * time.Second,
		PollInterval: time.Duration(nd.Int("cfg.poll.s", 1, 1<<10)) * time.Second,
		UserFormPath: "/device",
		UserCode: UserCodeConfig{
			CharSet:      verifC16CharSets[nd.Choice("cfg.charset", len(verifC16CharSets))],
			CharAmount:   1 + nd.Choice("cfg.amount", nd.Param("maxamount", 4)),
			DashInterval: nd.Choice("cfg.dash", nd.Param("maxdash", 3)+1),
		},
	}
	h.p.config.DeviceAuthorization = cfg
	h.form.Set("scope", "openid profile")
}

// verifUserCodeOK: code consists of exactly amount runes of charset, with a dash before every
// dash-th of them (not the first), and nothing else.
func verifUserCodeOK(code string, charset string, amount, dash int) bool {
	rs := []rune(code)
	cs := []rune(charset)
	pos := 0
	for i := 0; i < amount; i++ {
		if dash != 0 && i != 0 && i%dash == 0 {
			if pos >= len(rs) || rs[pos] != '-' {
				return false
			}
			pos++
		}
		if pos >= len(rs) {
			return false
		}
		in := false
		for _, c := range cs {
			if c == rs[pos] {
				in = true
			}
		}
		if !in {
			return false
		}
		pos++
	}
	return pos == len(rs)
}

func (h *verifC16) checkAuthz(rec *verifRec) {
	cfg := h.p.config.DeviceAuthorization
	if rec.status != 200 {
		nd.Cover("authz-refused")
		nd.Assert(len(h.st.devStored) == 0 || rec.status >= 500, "a refusal stores nothing (or is a server error)")
		return
	}
	nd.Cover("authz-started")
	doc := new(verifDevDoc)
	ok := len(rec.chunks) == 1 && json.Unmarshal(rec.chunks[0], doc) == nil
	nd.Assert(ok, "a success is a device authorization response document")
	if !ok {
		return
	}
	nd.Assert(len(h.st.devStored) == 1, "exactly one authorization stored")
	if len(h.st.devStored) != 1 {
		return
	}
	s := h.st.devStored[0]
	nd.Assert(s.clientID == h.who, "stored for the client that started the flow")
	nd.Assert(s.deviceCode == doc.DeviceCode, "the device code handed out is the stored one")
	nd.Assert(len(doc.DeviceCode) >= RecommendedDeviceCodeBytes, "the device code encodes at least 16 random bytes")
	nd.Assert(s.userCode == doc.UserCode, "the user code handed out is the stored one")
	nd.Assert(verifUserCodeOK(doc.UserCode, cfg.UserCode.CharSet, cfg.UserCode.CharAmount, cfg.UserCode.DashInterval), "user code drawn from the configured alphabet in the configured format")
	nd.Assert(doc.ExpiresIn == int(cfg.Lifetime/time.Second), "expires_in is the configured lifetime")
	nd.Assert(doc.Interval == int(cfg.PollInterval/time.Second), "interval is the configured poll interval")
	nd.Assert(s.expires.UnixNano() >= nd.ClockFirst()+int64(cfg.Lifetime) && s.expires.UnixNano() <= nd.ClockLast()+int64(cfg.Lifetime), "the stored expiry is now + lifetime")
	nd.Assert(doc.VerificationURI == verifIssuer+"/device", "verification_uri is on the provider's issuer")
	nd.Assert(doc.VerificationURIComplete == verifIssuer+"/device?user_code="+doc.UserCode, "verification_uri_complete carries the user code")
	nd.Assert(nd.EqStrs(s.scopes, []string{"openid", "profile"}), "the requested scopes are stored")
}

func VerifC16AuthzLegacy() {
	h := verifC16Env()
	h.authzConfig()
	rec := newVerifRec()
	DeviceAuthorizationHandler(h.p)(rec, verifPostRequest("/device_authorization", h.form, h.cr, false))
	h.checkAuthz(rec)
}

func VerifC16AuthzServer() {
	h := verifC16Env()
	h.authzConfig()
	ws := verifWebServer(h.p)
	rec := newVerifRec()
	ws.withClient(ws.deviceAuthorizationHandler)(rec, verifPostRequest("/device_authorization", h.form, h.cr, false))
	h.checkAuthz(rec)
}
