package op

// C09 — malformed requests yield an error response, never a panic, one response, and no grant
// logic after an error was answered. Token endpoint, both routers, every grant_type.

import (
	"net/url"

	nd "github.com/zitadel/oidc/v3/internal/verifnd"
	"github.com/zitadel/oidc/v3/pkg/oidc"
)

var verifC09Grants = []string{"authorization_code", "refresh_token", "urn:ietf:params:oauth:grant-type:jwt-bearer",
	"urn:ietf:params:oauth:grant-type:token-exchange", "client_credentials", "urn:ietf:params:oauth:grant-type:device_code", ""}

var verifC09Params = []string{"code", "redirect_uri", "client_id", "client_secret", "code_verifier", "refresh_token", "scope",
	"assertion", "subject_token", "subject_token_type", "actor_token", "actor_token_type", "requested_token_type", "device_code",
	"client_assertion", "client_assertion_type", "audience", "resource"}

func verifC09Request(st *verifStorage) (url.Values, *verifCreds, bool) {
	form := url.Values{}
	gi := nd.Choice("grant", len(verifC09Grants)+1)
	if gi < len(verifC09Grants) {
		form.Set("grant_type", verifC09Grants[gi])
	} else {
		form.Set("grant_type", nd.Str("othergrant"))
	}
	for _, p := range verifC09Params {
		form.Set(p, nd.Str("req."+p))
	}
	cr := &verifCreds{mode: nd.Choice("cred.mode", 4), id: nd.Str("cred.id"), secret: nd.Str("cred.secret")}
	return form, cr, nd.Bool("badform")
}

func verifC09Storage() *verifStorage {
	st := &verifStorage{}
	grants := []oidc.GrantType{oidc.GrantTypeCode, oidc.GrantTypeRefreshToken}
	st.clients = []*verifClient{verifNewClient("cA", "clientA", grants, 4)}
	verifSetupSigning(st, "RS256")
	return st
}

func verifC09Check(rec *verifRec, st *verifStorage) {
	nd.Assert(rec.headerWrites <= 1, "at most one WriteHeader")
	nd.Assert(rec.status != 0, "a response was written")
	if rec.status >= 400 {
		nd.Cover("error-response")
		nd.Assert(!st.createdTokens(), "no token creation once an error has been answered")
	} else {
		nd.Cover("success-response")
	}
}

// VerifC09ExchangeLegacy: op.Exchange with every grant_type, arbitrary parameters, unparsable
// form, malformed Basic credentials.
func VerifC09ExchangeLegacy() {
	st := verifC09Storage()
	p := verifProvider(st)
	form, cr, bad := verifC09Request(st)
	rec := newVerifRec()
	Exchange(rec, verifTokenRequest(form, cr, bad), p)
	verifC09Check(rec, st)
}

// VerifC09ExchangeServer: the same through webServer.tokensHandler / LegacyServer.
func VerifC09ExchangeServer() {
	st := verifC09Storage()
	p := verifProvider(st)
	ws := verifWebServer(p)
	form, cr, bad := verifC09Request(st)
	rec := newVerifRec()
	ws.tokensHandler(rec, verifTokenRequest(form, cr, bad))
	verifC09Check(rec, st)
}
