package rp

// C20 (relying party) — after construction the lazily created fields exist: the accessors that every
// request path uses do not write to the shared instance (so concurrent use cannot race on them).

import (
	"net/http"

	"golang.org/x/oauth2"

	nd "github.com/zitadel/oidc/v3/internal/verifnd"
	httphelper "github.com/zitadel/oidc/v3/pkg/http"
)

func VerifC20RPAccessors() {
	hc := &http.Client{}
	cfg := &oauth2.Config{ClientID: "rp-client", ClientSecret: "s", RedirectURL: "https://rp.example.com/cb", Scopes: []string{"openid"},
		Endpoint: oauth2.Endpoint{AuthURL: "https://op.example.com/authorize", TokenURL: "https://op.example.com/oauth/token"}}
	opts := []Option{WithHTTPClient(hc)}
	if nd.Choice("rp.cookies", 2) == 1 {
		opts = append(opts, WithCookieHandler(httphelper.NewCookieHandler([]byte("0123456789abcdef0123456789abcdef"), nil)))
	}
	if nd.Choice("rp.pkce", 2) == 1 {
		opts = append(opts, WithPKCE(httphelper.NewCookieHandler([]byte("0123456789abcdef0123456789abcdef"), nil)))
	}
	r, err := NewRelyingPartyOAuth(cfg, opts...)
	if err != nil {
		nd.Assume(false)
	}
	nd.Label(r, "instance")
	nd.Label(hc, "caller")
	nd.Label(httphelper.DefaultHTTPClient, "global")
	before := nd.Fingerprint(r)
	nd.FrameOn()
	v := r.IDTokenVerifier()
	eh := r.ErrorHandler()
	var uh func(http.ResponseWriter, *http.Request, string, string)
	if u, ok := r.(HasUnauthorizedHandler); ok {
		uh = u.UnauthorizedHandler()
	}
	_, _, _, _ = r.OAuthConfig(), r.HttpClient(), r.CookieHandler(), r.IsPKCE()
	_, _, _ = r.Issuer(), r.UserinfoEndpoint(), r.GetEndSessionEndpoint()
	_ = AuthURL("state", r)
	nd.FrameOff()
	nd.Cover("accessors-called")
	nd.Assert(nd.Fingerprint(r) == before, "the accessors leave every field of the shared relying party as it was")
	nd.Assert(v != nil && eh != nil && uh != nil, "verifier and handlers exist after construction")
	nd.Assert(v == r.IDTokenVerifier(), "every caller gets the same verifier (and remote key set)")
}
