package client

// C20 (client helpers) — a call on a shared caller never changes the caller-supplied HTTP client or the
// package-level default client: later calls follow redirects exactly as before.

import (
	"context"
	"net/http"

	nd "github.com/zitadel/oidc/v3/internal/verifnd"
	httphelper "github.com/zitadel/oidc/v3/pkg/http"
	"github.com/zitadel/oidc/v3/pkg/oidc"
)

type verifC20Caller struct{ hc *http.Client }

func (c *verifC20Caller) HttpClient() *http.Client                 { return c.hc }
func (c *verifC20Caller) GetEndSessionEndpoint() string            { return "https://op.example.com/end_session" }
func (c *verifC20Caller) GetRevokeEndpoint() string                { return "https://op.example.com/revoke" }
func (c *verifC20Caller) TokenEndpoint() string                    { return "https://op.example.com/oauth/token" }
func (c *verifC20Caller) GetDeviceAuthorizationEndpoint() string   { return "https://op.example.com/device_authorization" }

func VerifC20ClientCalls() {
	_, rt := nd.NewHTTPClient(func(k int, r *http.Request) (int, string, bool) {
		return int(nd.Int("status", 100, 599)), nd.Str("body"), nd.Bool("transport.fail")
	})
	hc := &http.Client{}
	shared := nd.Choice("client.kind", 2) == 1
	if shared {
		hc = httphelper.DefaultHTTPClient // the package default shared by every RP / RS without an own client
	}
	nd.Label(hc, "caller")
	nd.Label(httphelper.DefaultHTTPClient, "global")
	hc.Transport = rt
	timeoutBefore := hc.Timeout
	caller := &verifC20Caller{hc: hc}
	ctx := context.Background()
	before := nd.Fingerprint(hc)
	nd.FrameOn()
	switch nd.Choice("call", 5) {
	case 0:
		_, _ = CallEndSessionEndpoint(ctx, &oidc.EndSessionRequest{IdTokenHint: nd.Str("hint"), ClientID: "rp-client"}, nil, caller)
	case 1:
		_ = CallRevokeEndpoint(ctx, &RevokeRequest{Token: nd.Str("token"), ClientID: "rp-client"}, nil, caller)
	case 2:
		_, _ = CallTokenEndpoint(ctx, &oidc.ClientCredentialsRequest{GrantType: oidc.GrantTypeClientCredentials, ClientID: "rp-client", ClientSecret: "s"}, caller)
	case 3:
		_, _ = Discover(ctx, "https://op.example.com", hc)
	case 4:
		_, _ = CallDeviceAuthorizationEndpoint(ctx, &oidc.ClientCredentialsRequest{ClientID: "rp-client", Scope: oidc.SpaceDelimitedArray{"openid"}}, caller, nil)
	}
	nd.FrameOff()
	nd.Cover("call-made")
	nd.Assert(nd.Fingerprint(hc) == before, "the HTTP client keeps every value it had")
	nd.Assert(hc.CheckRedirect == nil, "the HTTP client keeps its redirect policy: later calls follow redirects as before")
	nd.Assert(hc.Timeout == timeoutBefore && hc.Jar == nil, "the HTTP client keeps its timeout and jar")
	nd.Assert(httphelper.DefaultHTTPClient.CheckRedirect == nil, "the package-level default HTTP client keeps its redirect policy")
}
