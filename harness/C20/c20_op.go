package op

// C20 (OP side) — constructing a provider never moves the package defaults or the endpoints of other
// providers; getters on storage-owned state do not write. Write-frame obligations: while the frame is on,
// every store into an object labelled global / caller / instance is an obligation failure; the explicit
// assertions state the same for the named fields (they are what a native replay evaluates).

import (
	"context"
	"time"

	nd "github.com/zitadel/oidc/v3/internal/verifnd"
)

func verifC20Paths() []string {
	e := DefaultEndpoints
	return []string{e.Authorization.Relative(), e.Token.Relative(), e.Introspection.Relative(), e.Userinfo.Relative(),
		e.Revocation.Relative(), e.EndSession.Relative(), e.JwksURI.Relative(), e.DeviceAuthorization.Relative()}
}

func verifC20Issuer(insecure bool) (IssuerFromRequest, error) {
	return StaticIssuer("https://op.example.com")(insecure)
}

func VerifC20ProviderOptions() {
	st := &verifStorage{}
	verifSetupSigning(st, "RS256")
	cfg := &Config{CryptoKey: [32]byte{1, 2, 3}}
	// a provider built with the defaults, before and after another one is built with custom endpoints
	p1, err := NewProvider(cfg, st, verifC20Issuer)
	if err != nil {
		nd.Assume(false)
	}
	before := verifC20Paths()
	nd.Label(DefaultEndpoints, "global")
	nd.Label(p1, "instance")
	custom := NewEndpoint("custom/" + nd.Str("custom.path"))
	opts := []Option{WithCustomAuthEndpoint(custom), WithCustomTokenEndpoint(custom), WithCustomIntrospectionEndpoint(custom), WithCustomUserinfoEndpoint(custom),
		WithCustomRevocationEndpoint(custom), WithCustomEndSessionEndpoint(custom), WithCustomKeysEndpoint(custom), WithCustomDeviceAuthorizationEndpoint(custom),
		WithCustomEndpoints(custom, custom, custom, custom, custom, custom), WithAllowInsecure(), WithAccessTokenKeySet(&OpenIDKeySet{st})}
	k := nd.Choice("option", len(opts))
	nd.FrameOn()
	p2, err := NewProvider(&Config{CryptoKey: [32]byte{4, 5, 6}}, st, verifC20Issuer, opts[k])
	nd.FrameOff()
	if err != nil {
		nd.Cover("option-refused")
		return
	}
	nd.Cover("provider-built")
	nd.Assert(p2 != p1, "a new instance")
	nd.Assert(nd.EqStrs(verifC20Paths(), before), "op.DefaultEndpoints keeps the values it had")
	nd.Assert(p1.AuthorizationEndpoint().Relative() == before[0] && p1.TokenEndpoint().Relative() == before[1] && p1.IntrospectionEndpoint().Relative() == before[2] &&
		p1.UserinfoEndpoint().Relative() == before[3] && p1.RevocationEndpoint().Relative() == before[4] && p1.EndSessionEndpoint().Relative() == before[5] &&
		p1.KeysEndpoint().Relative() == before[6] && p1.DeviceAuthorizationEndpoint().Relative() == before[7],
		"the endpoints of a provider created with defaults do not move when another provider is created with custom endpoints")
}

// getters of storage-owned device state, and the read-only accessors of a provider
func VerifC20Getters() {
	st := &verifStorage{}
	verifSetupSigning(st, "RS256")
	state := &DeviceAuthorizationState{ClientID: nd.Str("dev.client"), Subject: nd.Str("dev.sub"), Scopes: []string{"openid"}, Expires: time.Unix(1<<33, 0), Done: true}
	for i, n := 0, nd.Choice("dev.naud", 3); i < n; i++ {
		state.Audience = append(state.Audience, nd.Str("dev.aud"))
	}
	naud := len(state.Audience)
	p := verifProvider(st)
	nd.Label(state, "caller")
	nd.Label(p, "instance")
	nd.Label(DefaultEndpoints, "global")
	nd.FrameOn()
	aud := state.GetAudience()
	_, _, _, _, _ = state.GetSubject(), state.GetScopes(), state.GetAMR(), state.GetAuthTime(), state.GetClientID()
	_, _, _ = p.AuthorizationEndpoint(), p.Storage(), p.Crypto()
	_, _ = p.AccessTokenVerifier(context.Background()), p.IDTokenHintVerifier(context.Background())
	_ = p.Encoder()
	nd.FrameOff()
	nd.Cover("getters-called")
	nd.Assert(nd.Contains(aud, state.ClientID), "the audience handed out contains the client")
	nd.Assert(len(state.Audience) == naud, "a getter does not grow the storage-owned audience")
}
