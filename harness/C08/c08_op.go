package op

// C08 — only live tokens are honoured; revocation takes effect (framework side: the right
// questions are put to the storage with the identity recovered from the token, and its answers
// are honoured). UserInfo, introspection and revocation on both routers.

import (
	"context"
	"encoding/json"
	"net/http"
	"net/url"
	"strings"

	jose "github.com/go-jose/go-jose/v4"

	nd "github.com/zitadel/oidc/v3/internal/verifnd"
	"github.com/zitadel/oidc/v3/pkg/crypto"
	"github.com/zitadel/oidc/v3/pkg/oidc"
)

type verifC08 struct {
	st       *verifStorage
	p        *Provider
	token    string
	kind     int    // 0 sealed id:sub, 1 sealed arbitrary plaintext, 2 JWT signed by the provider, 3 JWT signed by another key, 4 arbitrary string, 5 provider-signed JWS with a non-object payload
	id, sub  string // what a correct recovery yields (kinds 0, 2)
	jwtIss   string
	jwtExp   int64
	plain    string
	revError bool
}

func verifC08Env() *verifC08 {
	h := &verifC08{st: &verifStorage{}}
	h.st.clients = []*verifClient{verifNewClient("cA", "clientA", nil, 3)}
	verifSetupSigning(h.st, "RS256")
	h.st.liveOK = nd.Bool("live")
	h.p = verifProvider(h.st)
	h.kind = nd.Choice("token.kind", 6)
	h.id, h.sub = nd.Str("tok.id"), nd.Str("tok.sub")
	switch h.kind {
	case 0:
		nd.Assume(!strings.Contains(h.id, ":") && !strings.Contains(h.sub, ":"))
		h.token, _ = h.p.crypto.Encrypt(h.id + ":" + h.sub)
	case 1:
		h.plain = nd.Str("tok.plain")
		h.token, _ = h.p.crypto.Encrypt(h.plain)
	case 2, 3:
		h.jwtIss, h.jwtExp = nd.Str("jwt.iss"), nd.Int("jwt.exp", 0, 1<<33)
		claims := &oidc.AccessTokenClaims{TokenClaims: oidc.TokenClaims{Issuer: h.jwtIss, Subject: h.sub, JWTID: h.id,
			Audience: oidc.Audience{"clientA"}, Expiration: oidc.Time(h.jwtExp)}}
		priv, kid := h.st.signPriv, h.st.signKeyID
		if h.kind == 3 {
			priv, _ = nd.KeyPair("foreign-key", "RS256")
			if nd.Choice("foreign.kid", 2) == 1 {
				kid = "foreign-key"
			}
		}
		signer, err := jose.NewSigner(jose.SigningKey{Algorithm: jose.RS256, Key: &jose.JSONWebKey{Key: priv, KeyID: kid}}, nil)
		if err != nil {
			nd.Assume(false)
		}
		h.token, err = crypto.Sign(claims, signer)
		if err != nil {
			nd.Assume(false)
		}
	case 4:
		h.token = nd.Str("tok.raw")
		nd.Assume(h.token != "")
	default:
		// a JWS genuinely signed by the provider's key whose payload is not a claims object
		payload := "null"
		if nd.Choice("payload.shape", 3) == 1 {
			payload = "[]"
		} else if nd.Choice("payload.shape2", 2) == 1 {
			payload = "\"x\""
		}
		signer, err := jose.NewSigner(jose.SigningKey{Algorithm: jose.RS256, Key: &jose.JSONWebKey{Key: h.st.signPriv, KeyID: h.st.signKeyID}}, nil)
		if err != nil {
			nd.Assume(false)
		}
		h.token, err = crypto.SignPayload([]byte(payload), signer)
		if err != nil {
			nd.Assume(false)
		}
	}
	return h
}

// recovered: the (id, subject) the framework must hand to the storage for this token, if any
func (h *verifC08) expectIdentity() (string, string, bool) {
	switch h.kind {
	case 0, 2:
		return h.id, h.sub, true
	}
	return "", "", false
}

type verifUserDoc struct {
	Subject string `json:"sub"`
	Email   string `json:"email"`
}

func (r *verifRec) userDoc() (*verifUserDoc, bool) {
	if len(r.chunks) != 1 || r.hdr.Get("Content-Type") != "application/json" {
		return nil, false
	}
	doc := new(verifUserDoc)
	if err := json.Unmarshal(r.chunks[0], doc); err != nil {
		return nil, false
	}
	return doc, true
}

func (h *verifC08) commonAccept(what string) {
	nd.Assert(h.st.liveOK, what+": only if the storage says the token is live")
	if id, sub, ok := h.expectIdentity(); ok {
		nd.Assert(h.st.lastTokenID == id && h.st.lastSubject == sub, what+": the storage was asked about the id and subject the token carries")
	}
	nd.Assert(h.kind != 3, what+": a JWT signed with a foreign key is never honoured")
	nd.Assert(h.kind != 5, what+": a JWS without a claims object is never honoured")
	if h.kind == 2 {
		nd.Assert(h.jwtIss == verifIssuer, what+": JWT access token names this issuer")
		nd.Assert(h.jwtExp*1000000000 > nd.ClockFirst()-2000000000, what+": JWT access token not expired")
	}
	if h.kind == 1 {
		nd.Assert(h.plain == h.st.lastTokenID+":"+h.st.lastSubject, what+": an opaque token is honoured only as exactly id:subject")
	}
}

func (h *verifC08) checkUserinfo(rec *verifRec) {
	doc, isDoc := rec.userDoc()
	if rec.status == 200 {
		nd.Cover("userinfo-claims")
		nd.Assert(h.st.userinfoCalls == 1, "userinfo: the storage decided exactly once")
		h.commonAccept("userinfo")
		nd.Assert(isDoc && doc.Subject == h.st.lastSubject, "userinfo: claims are the storage's for that subject")
	} else {
		nd.Cover("userinfo-refused")
		nd.Assert(rec.status == 401 || rec.status == 403, "userinfo refusal is 401/403")
		nd.Assert(!isDoc || doc.Email == "", "userinfo refusal carries no user claims")
	}
	if !h.st.liveOK {
		nd.Assert(rec.status != 200, "a token the storage does not consider live yields no claims")
	}
}

func (h *verifC08) userinfoRequest() *http.Request {
	form := url.Values{}
	r := verifWithIssuer(nd.Request("GET", "/userinfo", form, "", "", false, false))
	if nd.Param("viaheader", 0) == 0 || nd.Choice("token.via", 2) == 1 {
		form.Set("access_token", h.token)
		return verifWithIssuer(nd.Request("POST", "/userinfo", form, "", "", false, false))
	}
	r.Header.Set("authorization", "Bearer "+h.token)
	return r
}

func VerifC08UserinfoLegacy() {
	h := verifC08Env()
	rec := newVerifRec()
	Userinfo(rec, h.userinfoRequest(), h.p)
	h.checkUserinfo(rec)
}

func VerifC08UserinfoServer() {
	h := verifC08Env()
	ws := verifWebServer(h.p)
	rec := newVerifRec()
	ws.userInfoHandler(rec, h.userinfoRequest())
	h.checkUserinfo(rec)
}

// ---------------- introspection (authenticated caller: clientA with its secret) ----------------

type verifIntroDoc struct {
	Active   bool   `json:"active"`
	Subject  string `json:"sub"`
	Username string `json:"username"`
}

func (r *verifRec) introDoc() (*verifIntroDoc, bool) {
	if len(r.chunks) != 1 || r.hdr.Get("Content-Type") != "application/json" {
		return nil, false
	}
	doc := new(verifIntroDoc)
	if err := json.Unmarshal(r.chunks[0], doc); err != nil {
		return nil, false
	}
	return doc, true
}

func (h *verifC08) resourceRequest(path string, extra url.Values) *http.Request {
	form := url.Values{}
	form.Set("token", h.token)
	for k, v := range extra {
		form[k] = v
	}
	cA := h.st.clients[0]
	nd.Assume(cA.secret != "")
	return verifPostRequest(path, form, &verifCreds{mode: 1, id: cA.id, secret: cA.secret}, false)
}

func (h *verifC08) checkIntrospect(rec *verifRec) {
	doc, isDoc := rec.introDoc()
	nd.Assert(rec.status == 200 && isDoc, "an authenticated introspection is answered with a document")
	if !isDoc {
		return
	}
	if doc.Active {
		nd.Cover("introspect-active")
		nd.Assert(h.st.introspectCalls == 1, "introspection: the storage decided exactly once")
		h.commonAccept("introspection")
		nd.Assert(h.st.lastCaller == "clientA", "introspection: the storage is told who asks (audience check)")
	} else {
		nd.Cover("introspect-inactive")
		nd.Assert(doc.Subject == "" && doc.Username == "", "an inactive answer discloses nothing but active:false")
	}
	if !h.st.liveOK {
		nd.Assert(!doc.Active, "a token the storage does not consider live is not active")
	}
}

func VerifC08IntrospectLegacy() {
	h := verifC08Env()
	nd.Assume(h.st.clients[0].authMethod == oidc.AuthMethodBasic)
	rec := newVerifRec()
	Introspect(rec, h.resourceRequest("/oauth/introspect", nil), h.p)
	h.checkIntrospect(rec)
}

func VerifC08IntrospectServer() {
	h := verifC08Env()
	nd.Assume(h.st.clients[0].authMethod == oidc.AuthMethodBasic)
	ws := verifWebServer(h.p)
	rec := newVerifRec()
	ws.introspectionHandler(rec, h.resourceRequest("/oauth/introspect", nil))
	h.checkIntrospect(rec)
}

// ---------------- revocation ----------------

type verifRevStorage struct {
	*verifStorage
	refuse bool
}

func (s *verifRevStorage) RevokeToken(ctx context.Context, tokenOrID, userID, clientID string) *oidc.Error {
	s.revoked = append(s.revoked, tokenOrID)
	s.lastTokenID, s.lastSubject, s.lastCaller = tokenOrID, userID, clientID
	if s.refuse {
		return oidc.ErrInvalidClient().WithDescription("token was not issued to this client")
	}
	return nil
}

func (h *verifC08) revokeSetup() (*Provider, *verifRevStorage, url.Values) {
	nd.Assume(h.st.clients[0].authMethod == oidc.AuthMethodBasic)
	rs := &verifRevStorage{verifStorage: h.st, refuse: nd.Bool("revoke.refused")}
	p := verifProvider(rs)
	p.crypto = h.p.crypto
	extra := url.Values{}
	switch nd.Choice("hint", 3) {
	case 1:
		extra.Set("token_type_hint", "access_token")
	case 2:
		extra.Set("token_type_hint", "refresh_token")
	}
	// the storage may also know the presented string as a refresh token of this client
	if (h.kind == 0 || h.kind == 4 || nd.Param("refreshallkinds", 0) == 1) && nd.Choice("is.refresh", 2) == 1 {
		h.st.refreshReq = &verifRefreshReq{clientID: "clientA", subject: nd.Str("R.sub")}
		h.st.refreshTok = h.token
	}
	return p, rs, extra
}

func (h *verifC08) checkRevoke(rec *verifRec, rs *verifRevStorage, hint string) {
	nd.Assert(len(h.st.revoked) == 1, "the storage is asked to revoke exactly once")
	if len(h.st.revoked) != 1 {
		return
	}
	nd.Assert(h.st.lastCaller == "clientA", "the storage is told the authenticated client (it refuses foreign clients)")
	isRefresh := h.st.refreshReq != nil
	switch {
	case isRefresh && hint != "access_token":
		nd.Cover("revoke-refresh-token")
		nd.Assert(h.st.lastTokenID == "rt-id" && h.st.lastSubject == h.st.refreshReq.subject, "refresh token: revoked by the id and user the storage reported")
	default:
		if id, sub, ok := h.expectIdentity(); ok && (h.kind == 0 || (h.jwtIss == verifIssuer && h.jwtExp*1000000000 > nd.ClockLast()+2000000000)) {
			nd.Cover("revoke-access-token")
			nd.Assert(h.st.lastTokenID == id && h.st.lastSubject == sub, "access token: revoked by the id and subject it carries")
		} else if h.kind == 3 || h.kind == 4 {
			nd.Cover("revoke-garbage")
		}
		if h.kind == 3 {
			nd.Assert(h.st.lastTokenID == h.token && h.st.lastSubject == "", "a token that does not verify is passed on as an unknown string, not as an identity")
		}
	}
	if rs.refuse {
		nd.Cover("revoke-refused-by-storage")
		nd.Assert(rec.status >= 400, "a revocation the storage refuses (foreign client) is answered with an error")
	} else {
		nd.Assert(rec.status == 200, "revocation (also of an unknown or garbage token) answers 200")
	}
}

func VerifC08RevokeLegacy() {
	h := verifC08Env()
	p, rs, extra := h.revokeSetup()
	rec := newVerifRec()
	Revoke(rec, h.resourceRequest("/revoke", extra), p)
	h.checkRevoke(rec, rs, extra.Get("token_type_hint"))
}

func VerifC08RevokeServer() {
	h := verifC08Env()
	p, rs, extra := h.revokeSetup()
	ws := verifWebServer(p)
	rec := newVerifRec()
	ws.withClient(ws.revocationHandler)(rec, h.resourceRequest("/revoke", extra))
	h.checkRevoke(rec, rs, extra.Get("token_type_hint"))
}
