package op

// C10 — storage failures fail closed. Requests that would succeed are run with the storage in
// fault mode: any single storage call of the flow (chosen symbolically, call by call) fails with a
// plain error, a context timeout or an OAuth error. Both routers.

import (
	"context"
	"net/http"
	"net/url"
	"time"

	nd "github.com/zitadel/oidc/v3/internal/verifnd"
	"github.com/zitadel/oidc/v3/pkg/oidc"
)

type verifC10 struct {
	st      *verifStorage
	storage Storage
	p       *Provider
	cA      *verifClient
	form    url.Values
	grant   oidc.GrantType
}

func verifC10Env() *verifC10 {
	h := &verifC10{st: &verifStorage{}}
	cA := &verifClient{id: "clientA", secret: nd.Str("cA.secret"), appType: ApplicationTypeWeb, authMethod: oidc.AuthMethodBasic,
		grantTypes: []oidc.GrantType{oidc.GrantTypeCode, oidc.GrantTypeRefreshToken, oidc.GrantTypeClientCredentials, oidc.GrantTypeTokenExchange, oidc.GrantTypeDeviceCode},
		responseTypes: []oidc.ResponseType{oidc.ResponseTypeCode}, idLifetime: time.Hour, keyID: "cA-key"}
	nd.Assume(cA.secret != "")
	if nd.Choice("cA.tokentype", 2) == 1 {
		cA.tokenType = AccessTokenTypeJWT
	}
	h.cA = cA
	h.st.clients = []*verifClient{cA}
	verifGiveKeys(h.st)
	verifSetupSigning(h.st, "RS256")
	h.st.teDefaults = true
	h.storage = &verifStorageFull{h.st}
	if nd.Choice("storage.fromrequest", 2) == 1 {
		h.storage = &verifStorageFullReq{&verifStorageFull{h.st}}
	}
	h.p = verifProvider(h.storage)
	h.form = url.Values{}
	return h
}

func (h *verifC10) creds() *verifCreds { return &verifCreds{mode: 1, id: h.cA.id, secret: h.cA.secret} }

// a well-formed request of every grant, against storage state that lets it succeed
func (h *verifC10) tokenRequest() *http.Request {
	scopes := []string{oidc.ScopeOpenID, oidc.ScopeEmail, oidc.ScopeOfflineAccess}
	gi := nd.Choice("grant", 6)
	h.grant = oidc.GrantType(verifC09Grants[gi])
	h.form.Set("grant_type", string(h.grant))
	cr := h.creds()
	switch h.grant {
	case oidc.GrantTypeCode:
		h.st.authReq = &verifAuthReq{id: "authreq-1", clientID: "clientA", subject: "user-1", redirectURI: "https://rp.example.com/cb",
			scopes: scopes, audience: []string{"clientA"}, responseType: oidc.ResponseTypeCode, done: true, authTime: time.Unix(1<<30, 0)}
		h.st.code = "code-0"
		h.form.Set("code", "code-0")
		h.form.Set("redirect_uri", "https://rp.example.com/cb")
	case oidc.GrantTypeRefreshToken:
		h.st.refreshReq = &verifRefreshReq{clientID: "clientA", subject: "user-1", scopes: scopes, audience: []string{"clientA"}, authTime: time.Unix(1<<30, 0)}
		h.st.refreshTok = "rt-0"
		h.form.Set("refresh_token", "rt-0")
	case oidc.GrantTypeBearer:
		h.form.Set("assertion", verifSignedAssertion("req.assertion", h.cA.keyPriv, h.cA.keyID))
		h.form.Set("scope", "openid")
		cr = &verifCreds{}
	case oidc.GrantTypeTokenExchange:
		h.st.refreshReq = &verifRefreshReq{clientID: "clientA", subject: "user-1", scopes: scopes, audience: []string{"clientA"}}
		h.st.refreshTok = "rt-0"
		h.form.Set("subject_token", "rt-0")
		h.form.Set("subject_token_type", string(oidc.RefreshTokenType))
		if nd.Choice("te.requested", 2) == 1 {
			h.form.Set("requested_token_type", string(oidc.IDTokenType))
		}
		h.form.Set("scope", "openid email")
	case oidc.GrantTypeClientCredentials:
		h.form.Set("scope", "openid")
	case oidc.GrantTypeDeviceCode:
		h.st.devState = &DeviceAuthorizationState{ClientID: "clientA", Done: true, Subject: "user-1", Scopes: scopes, Expires: time.Unix(1<<33, 0)}
		h.st.devClient, h.st.devCode = "clientA", "dev-0"
		h.form.Set("device_code", "dev-0")
	}
	h.p.config.GrantTypeRefreshToken = true
	return verifTokenRequest(h.form, cr, false)
}

func (h *verifC10) checkToken(rec *verifRec) {
	if h.st.faulted == "" {
		nd.Cover("no-fault")
		if h.grant != oidc.GrantTypeBearer {
			nd.Assert(rec.status == 200 && rec.hasTokens(), "without a fault the request succeeds (harness sanity)")
		}
		return
	}
	nd.Cover("fault")
	nd.Cover("fault-" + h.st.faulted)
	nd.Assert(rec.status >= 400, "a storage failure is answered with an error status")
	nd.Assert(rec.headerWrites <= 1, "one response only")
	nd.Assert(!rec.hasTokens(), "no access, refresh or ID token after a storage failure")
	e, isErr := rec.oauthError()
	nd.Assert(isErr, "the error is an OAuth error document")
	if h.grant == oidc.GrantTypeDeviceCode && h.st.faulted == "GetDeviceAuthorizatonState" {
		if h.st.faultErr == context.DeadlineExceeded {
			nd.Assert(e == "slow_down", "device polling: storage time-out answers slow_down")
		} else {
			nd.Assert(e == "access_denied", "device polling: other storage errors answer access_denied")
		}
	}
}

func VerifC10TokenLegacy() {
	h := verifC10Env()
	r := h.tokenRequest()
	h.st.faultsOn = true
	rec := newVerifRec()
	Exchange(rec, r, h.p)
	h.checkToken(rec)
}

func VerifC10TokenServer() {
	h := verifC10Env()
	r := h.tokenRequest()
	ws := verifWebServer(h.p)
	h.st.faultsOn = true
	rec := newVerifRec()
	ws.tokensHandler(rec, r)
	h.checkToken(rec)
}

// ---------------- resource endpoints ----------------

func (h *verifC10) sealed() string {
	tok, _ := h.p.crypto.Encrypt("tok-1:user-1")
	return tok
}

func (h *verifC10) resource(which int, server bool) *verifRec {
	h.st.liveOK = true
	rec := newVerifRec()
	ws := verifWebServer(h.p)
	switch which {
	case 0: // userinfo
		form := url.Values{}
		form.Set("access_token", h.sealed())
		r := verifWithIssuer(nd.Request("POST", "/userinfo", form, "", "", false, false))
		h.st.faultsOn = true
		if server {
			ws.userInfoHandler(rec, r)
		} else {
			Userinfo(rec, r, h.p)
		}
	case 1: // introspection
		h.form.Set("token", h.sealed())
		r := verifPostRequest("/oauth/introspect", h.form, h.creds(), false)
		h.st.faultsOn = true
		if server {
			ws.introspectionHandler(rec, r)
		} else {
			Introspect(rec, r, h.p)
		}
	case 2: // revocation
		h.form.Set("token", h.sealed())
		r := verifPostRequest("/revoke", h.form, h.creds(), false)
		h.st.faultsOn = true
		if server {
			ws.withClient(ws.revocationHandler)(rec, r)
		} else {
			Revoke(rec, r, h.p)
		}
	case 3: // keys
		r := verifWithIssuer(nd.Request("GET", "/keys", url.Values{}, "", "", false, false))
		h.st.faultsOn = true
		if server {
			simpleHandler(ws, ws.server.Keys)(rec, r)
		} else {
			Keys(rec, r, h.p.storage)
		}
	case 4: // device authorization
		h.form.Set("client_id", "clientA")
		h.form.Set("scope", "openid")
		r := verifPostRequest("/device_authorization", h.form, h.creds(), false)
		h.st.faultsOn = true
		if server {
			ws.withClient(ws.deviceAuthorizationHandler)(rec, r)
		} else {
			DeviceAuthorizationHandler(h.p)(rec, r)
		}
	}
	return rec
}

func (h *verifC10) checkResource(which int, rec *verifRec) {
	if h.st.faulted == "" {
		nd.Cover("no-fault")
		nd.Assert(rec.status == 200, "without a fault the request succeeds (harness sanity)")
		return
	}
	nd.Cover("fault")
	nd.Cover("fault-" + h.st.faulted)
	nd.Assert(rec.headerWrites <= 1, "one response only")
	if h.st.faulted != "RevokeToken" {
		nd.Assert(len(h.st.revoked) == 0, "nothing is revoked after an earlier storage failure was answered")
	}
	switch which {
	case 0:
		doc, isDoc := rec.userDoc()
		nd.Assert(rec.status >= 400, "userinfo: a storage failure is answered with an error status")
		nd.Assert(!isDoc || doc.Email == "", "userinfo: no user claims after a storage failure")
	case 1:
		doc, isDoc := rec.introDoc()
		nd.Assert(!isDoc || !doc.Active, "introspection: never active:true after a storage failure")
		nd.Assert(!isDoc || (doc.Subject == "" && doc.Username == ""), "introspection: nothing disclosed after a storage failure")
	case 2:
		nd.Assert(rec.status >= 400, "revocation: a storage failure is answered with an error status")
	case 3:
		nd.Assert(rec.status >= 500, "keys: a storage failure is answered with a server error")
	case 4:
		nd.Assert(rec.status >= 400, "device authorization: a storage failure is answered with an error status")
		nd.Assert(len(h.st.devStored) == 0 || h.st.faulted != "StoreDeviceAuthorization", "device authorization: nothing stored by the failed call")
	}
}

func VerifC10ResourceLegacy() {
	h := verifC10Env()
	which := nd.Choice("endpoint", 5)
	rec := h.resource(which, false)
	h.checkResource(which, rec)
}

func VerifC10ResourceServer() {
	h := verifC10Env()
	which := nd.Choice("endpoint", 5)
	rec := h.resource(which, true)
	h.checkResource(which, rec)
}
