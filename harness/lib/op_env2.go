package op

// Optional storage capabilities (client credentials, token exchange, device authorization) for the
// OP harnesses, layered over verifStorage.

import (
	"context"
	"errors"
	"time"

	jose "github.com/go-jose/go-jose/v4"

	nd "github.com/zitadel/oidc/v3/internal/verifnd"
	"github.com/zitadel/oidc/v3/pkg/crypto"
	"github.com/zitadel/oidc/v3/pkg/oidc"
)

type verifDevStore struct {
	clientID, deviceCode, userCode string
	expires                        time.Time
	scopes                         []string
}

type verifDevLookup struct{ clientID, deviceCode string }

type verifCCReq struct {
	clientID string
	scopes   []string
}

func (r *verifCCReq) GetSubject() string    { return r.clientID }
func (r *verifCCReq) GetAudience() []string { return []string{r.clientID} }
func (r *verifCCReq) GetScopes() []string   { return r.scopes }

// verifStorageFull implements ClientCredentialsStorage, TokenExchangeStorage and
// DeviceAuthorizationStorage on top of verifStorage.
type verifStorageFull struct{ *verifStorage }

func (s *verifStorageFull) ClientCredentials(ctx context.Context, id, secret string) (Client, error) {
	if err := s.fault("ClientCredentials"); err != nil {
		return nil, err
	}
	if c := s.client(id); c != nil && secret == c.secret {
		s.ccOK = append(s.ccOK, id)
		return c, nil
	}
	return nil, errors.New("invalid client credentials")
}

func (s *verifStorageFull) ClientCredentialsTokenRequest(ctx context.Context, id string, scopes []string) (TokenRequest, error) {
	if err := s.fault("ClientCredentialsTokenRequest"); err != nil {
		return nil, err
	}
	return &verifCCReq{clientID: id, scopes: scopes}, nil
}

func (s *verifStorageFull) ValidateTokenExchangeRequest(ctx context.Context, r TokenExchangeRequest) error {
	if err := s.fault("ValidateTokenExchangeRequest"); err != nil {
		return err
	}
	s.teValidated++
	if s.teVeto {
		return oidc.ErrInvalidTarget().WithDescription("storage policy refuses this exchange")
	}
	if s.teDefaults && r.GetRequestedTokenType() == "" {
		r.SetRequestedTokenType(oidc.AccessTokenType)
	}
	return nil
}

func (s *verifStorageFull) CreateTokenExchangeRequest(ctx context.Context, r TokenExchangeRequest) error {
	if err := s.fault("CreateTokenExchangeRequest"); err != nil {
		return err
	}
	s.teCreatedReqs = append(s.teCreatedReqs, r)
	return nil
}

func (s *verifStorageFull) GetPrivateClaimsFromTokenExchangeRequest(ctx context.Context, r TokenExchangeRequest) (map[string]any, error) {
	if err := s.fault("GetPrivateClaimsFromTokenExchangeRequest"); err != nil {
		return nil, err
	}
	return map[string]any{"tenant": "t1"}, nil
}

func (s *verifStorageFull) SetUserinfoFromTokenExchangeRequest(ctx context.Context, u *oidc.UserInfo, r TokenExchangeRequest) error {
	if err := s.fault("SetUserinfoFromTokenExchangeRequest"); err != nil {
		return err
	}
	u.Subject = r.GetSubject()
	return nil
}

func (s *verifStorageFull) StoreDeviceAuthorization(ctx context.Context, clientID, deviceCode, userCode string, expires time.Time, scopes []string) error {
	if err := s.fault("StoreDeviceAuthorization"); err != nil {
		return err
	}
	s.devStored = append(s.devStored, verifDevStore{clientID, deviceCode, userCode, expires, scopes})
	return nil
}

func (s *verifStorageFull) GetDeviceAuthorizatonState(ctx context.Context, clientID, deviceCode string) (*DeviceAuthorizationState, error) {
	if err := s.fault("GetDeviceAuthorizatonState"); err != nil {
		return nil, err
	}
	s.devLookups = append(s.devLookups, verifDevLookup{clientID, deviceCode})
	switch s.devErr {
	case 1:
		return nil, context.DeadlineExceeded
	case 2:
		return nil, errVerifStorage
	}
	if s.devState != nil && clientID == s.devClient && deviceCode == s.devCode {
		return s.devState, nil
	}
	return nil, errors.New("device code not found for this client")
}

// verifPickStorage returns the plain storage or the one with all optional capabilities.
func verifPickStorage(st *verifStorage) (Storage, bool) {
	if nd.Choice("storage.full", 2) == 1 {
		return &verifStorageFull{st}, true
	}
	return st, false
}

// verifGiveKeys registers a public key (for private_key_jwt / JWT profile) with every client.
func verifGiveKeys(st *verifStorage) {
	for _, c := range st.clients {
		c.keyPriv, c.keyPub = nd.KeyPair(c.keyID, "RS256")
	}
}

type verifActiveDoc struct {
	Active bool `json:"active"`
}

// verifSignedAssertion builds a JWT-profile assertion with arbitrary claims, really signed (RS256) with
// priv under header kid: through the repository's crypto.Sign, so it is a genuine JWS in native runs and
// a carrier that verifies exactly under the matching public key in symbolic runs.
func verifSignedAssertion(tag string, priv any, kid string) string {
	claims := &oidc.JWTTokenRequest{Issuer: nd.Str(tag + ".iss"), Subject: nd.Str(tag + ".sub"), Audience: oidc.Audience{nd.Str(tag + ".aud")},
		IssuedAt: oidc.Time(nd.Int(tag+".iat", 0, 1<<33)), ExpiresAt: oidc.Time(nd.Int(tag+".exp", 0, 1<<33))}
	signer, err := jose.NewSigner(jose.SigningKey{Algorithm: jose.RS256, Key: &jose.JSONWebKey{Key: priv, KeyID: kid}}, nil)
	if err != nil {
		nd.Assume(false)
	}
	tok, err := crypto.Sign(claims, signer)
	if err != nil {
		nd.Assume(false)
	}
	return tok
}

// verifStorageFullReq additionally implements CanSetUserinfoFromRequest and CanGetPrivateClaimsFromRequest.
type verifStorageFullReq struct{ *verifStorageFull }

func (s *verifStorageFullReq) SetUserinfoFromRequest(ctx context.Context, u *oidc.UserInfo, r IDTokenRequest, scopes []string) error {
	if err := s.fault("SetUserinfoFromRequest"); err != nil {
		return err
	}
	u.Subject = r.GetSubject()
	return nil
}

func (s *verifStorageFullReq) GetPrivateClaimsFromRequest(ctx context.Context, r TokenRequest, scopes []string) (map[string]any, error) {
	if err := s.fault("GetPrivateClaimsFromRequest"); err != nil {
		return nil, err
	}
	return map[string]any{"tenant": "t1"}, nil
}
