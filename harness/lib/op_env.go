package op

// Shared symbolic environment for the OP harnesses: clients, storage (with call journal and
// single-fault injection), auth / refresh requests, response recorder, provider and both
// routers. Plain Go: executed symbolically by gosmt and natively on replay.

import (
	"context"
	"encoding/json"
	"errors"
	"log/slog"
	"net/http"
	"net/url"
	"time"

	jose "github.com/go-jose/go-jose/v4"
	"github.com/zitadel/schema"

	nd "github.com/zitadel/oidc/v3/internal/verifnd"
	"github.com/zitadel/oidc/v3/pkg/oidc"
)

// ---------------- clients ----------------

type verifClient struct {
	id, secret        string
	appType           ApplicationType
	authMethod        oidc.AuthMethod
	grantTypes        []oidc.GrantType
	responseTypes     []oidc.ResponseType
	redirectURIs      []string
	postLogoutURIs    []string
	devMode           bool
	tokenType         AccessTokenType
	skew, idLifetime  time.Duration
	userinfoAssertion bool
	idScopeDrop       string // scope the client's ID-token scope restriction removes ("" = identity)
	keyID             string // kid of the key registered for private_key_jwt
	keyPub            any
	keyPriv           any
}

func (c *verifClient) GetID() string                       { return c.id }
func (c *verifClient) RedirectURIs() []string              { return c.redirectURIs }
func (c *verifClient) PostLogoutRedirectURIs() []string    { return c.postLogoutURIs }
func (c *verifClient) ApplicationType() ApplicationType    { return c.appType }
func (c *verifClient) AuthMethod() oidc.AuthMethod         { return c.authMethod }
func (c *verifClient) ResponseTypes() []oidc.ResponseType  { return c.responseTypes }
func (c *verifClient) GrantTypes() []oidc.GrantType        { return c.grantTypes }
func (c *verifClient) LoginURL(id string) string           { return "/login?authRequestID=" + id }
func (c *verifClient) AccessTokenType() AccessTokenType    { return c.tokenType }
func (c *verifClient) IDTokenLifetime() time.Duration      { return c.idLifetime }
func (c *verifClient) DevMode() bool                       { return c.devMode }
func (c *verifClient) IsScopeAllowed(scope string) bool    { return false }
func (c *verifClient) IDTokenUserinfoClaimsAssertion() bool { return c.userinfoAssertion }
func (c *verifClient) ClockSkew() time.Duration            { return c.skew }
func (c *verifClient) RestrictAdditionalIdTokenScopes() func(scopes []string) []string {
	return func(scopes []string) []string {
		if c.idScopeDrop == "" {
			return scopes
		}
		out := make([]string, 0, len(scopes))
		for _, s := range scopes {
			if s != c.idScopeDrop {
				out = append(out, s)
			}
		}
		return out
	}
}
func (c *verifClient) RestrictAdditionalAccessTokenScopes() func(scopes []string) []string {
	return func(scopes []string) []string { return scopes }
}

type verifGlobClient struct {
	*verifClient
	redirectGlobs, postLogoutGlobs []string
}

func (c *verifGlobClient) RedirectURIGlobs() []string           { return c.redirectGlobs }
func (c *verifGlobClient) PostLogoutRedirectURIGlobs() []string { return c.postLogoutGlobs }

// verifNewClient draws a client registration lazily: auth method, application type and the
// registered grant are symbolic values constrained to their legal ranges, so paths fork only
// where the code under test actually looks at them. grants lists the grant types that may be
// registered: the client is registered for grants[i] iff its i-th flag holds.
func verifNewClient(tag string, id string, grants []oidc.GrantType, nmethods int) *verifClient {
	c := &verifClient{id: id, secret: nd.Str(tag + ".secret")}
	m := nd.Str(tag + ".authmethod")
	ok := nd.Or(m == string(oidc.AuthMethodBasic), m == string(oidc.AuthMethodPost))
	if nmethods >= 3 {
		ok = nd.Or(ok, m == string(oidc.AuthMethodNone))
	}
	if nmethods >= 4 {
		ok = nd.Or(ok, m == string(oidc.AuthMethodPrivateKeyJWT))
	}
	nd.Assume(ok)
	c.authMethod = oidc.AuthMethod(m)
	t := nd.Int(tag+".apptype", 0, 2)
	if nd.Param("coupledapptype", 0) == 1 {
		// public clients are user-agent or native applications, confidential ones are web applications
		nd.Assume(nd.Or(nd.And(m == string(oidc.AuthMethodNone), t != 0), nd.And(m != string(oidc.AuthMethodNone), t == 0)))
	}
	c.appType = ApplicationType(t)
	for i, g := range grants {
		r := nd.Str(tag + ".grant")
		nd.Assume(nd.Or(r == string(g), r == "-"))
		_ = i
		c.grantTypes = append(c.grantTypes, oidc.GrantType(r))
	}
	c.responseTypes = []oidc.ResponseType{oidc.ResponseTypeCode}
	c.idLifetime = time.Hour
	c.keyID = tag + "-key"
	return c
}

// ---------------- requests held by the storage ----------------

type verifAuthReq struct {
	id, clientID, subject, nonce, state, redirectURI, acr string
	scopes, audience, amr                                  []string
	challenge                                              *oidc.CodeChallenge
	responseType                                           oidc.ResponseType
	responseMode                                           oidc.ResponseMode
	authTime                                               time.Time
	done                                                   bool
}

func (a *verifAuthReq) GetID() string                         { return a.id }
func (a *verifAuthReq) GetACR() string                        { return a.acr }
func (a *verifAuthReq) GetAMR() []string                      { return a.amr }
func (a *verifAuthReq) GetAudience() []string                 { return a.audience }
func (a *verifAuthReq) GetAuthTime() time.Time                { return a.authTime }
func (a *verifAuthReq) GetClientID() string                   { return a.clientID }
func (a *verifAuthReq) GetCodeChallenge() *oidc.CodeChallenge { return a.challenge }
func (a *verifAuthReq) GetNonce() string                      { return a.nonce }
func (a *verifAuthReq) GetRedirectURI() string                { return a.redirectURI }
func (a *verifAuthReq) GetResponseType() oidc.ResponseType    { return a.responseType }
func (a *verifAuthReq) GetResponseMode() oidc.ResponseMode    { return a.responseMode }
func (a *verifAuthReq) GetScopes() []string                   { return a.scopes }
func (a *verifAuthReq) GetState() string                      { return a.state }
func (a *verifAuthReq) GetSubject() string                    { return a.subject }
func (a *verifAuthReq) Done() bool                            { return a.done }

type verifRefreshReq struct {
	clientID, subject       string
	scopes, audience, amr   []string
	authTime                time.Time
	currentScopes           []string
	setCurrentCalls         int
}

func (r *verifRefreshReq) GetAMR() []string       { return r.amr }
func (r *verifRefreshReq) GetAudience() []string  { return r.audience }
func (r *verifRefreshReq) GetAuthTime() time.Time { return r.authTime }
func (r *verifRefreshReq) GetClientID() string    { return r.clientID }
func (r *verifRefreshReq) GetScopes() []string    { return r.scopes }
func (r *verifRefreshReq) GetSubject() string     { return r.subject }
func (r *verifRefreshReq) SetCurrentScopes(s []string) {
	r.setCurrentCalls++
	r.currentScopes = s
	r.scopes = s
}

func verifScopes(tag string, max int, withOffline bool) []string {
	n := nd.Choice(tag+".n", max+1)
	var out []string
	for i := 0; i < n; i++ {
		out = append(out, nd.Str(tag))
	}
	if withOffline && nd.Choice(tag+".offline", 2) == 1 {
		out = append(out, oidc.ScopeOfflineAccess)
	}
	return out
}

// ---------------- keys ----------------

type verifSigningKey struct {
	alg jose.SignatureAlgorithm
	key any
	id  string
}

func (k *verifSigningKey) SignatureAlgorithm() jose.SignatureAlgorithm { return k.alg }
func (k *verifSigningKey) Key() any                                    { return k.key }
func (k *verifSigningKey) ID() string                                  { return k.id }

type verifPubKey struct {
	alg jose.SignatureAlgorithm
	key any
	id  string
}

func (k *verifPubKey) ID() string                         { return k.id }
func (k *verifPubKey) Algorithm() jose.SignatureAlgorithm { return k.alg }
func (k *verifPubKey) Use() string                        { return "sig" }
func (k *verifPubKey) Key() any                           { return k.key }

// ---------------- storage ----------------

type verifCreated struct {
	req            TokenRequest
	withRefresh    bool
	currentRefresh string
	id, newRefresh string
	exp            time.Time
}

type verifStorage struct {
	clients     []*verifClient
	globClients []*verifGlobClient // clients that opted into redirect globs (looked up first)
	journal []string

	// single-fault injection (C10): at most one storage call fails per run
	faultsOn bool
	nfaults  int
	faulted  string
	faultErr error

	authReq    *verifAuthReq
	code       string
	deleted    []string
	refreshReq *verifRefreshReq
	refreshTok string

	secretOK  []string // client ids for which AuthorizeClientIDSecret said yes in this request
	created   []verifCreated
	revoked   []string
	signAlg   string
	signPriv  any
	signPub   any
	signKeyID string
	rotating  bool // the published key set also carries the previous key (same family, other kid)

	keyServed []string // client ids for which GetKeyByIDAndClientID handed out a key in this request
	ccOK      []string // client ids for which ClientCredentials said yes in this request

	// optional capabilities (verifStorageFull)
	teVeto, teDefaults bool
	teValidated        int
	teCreatedReqs      []TokenExchangeRequest
	devState           *DeviceAuthorizationState
	devClient, devCode string
	devStored          []verifDevStore
	devLookups         []verifDevLookup
	devErr             int // 0 none, 1 the state lookup times out, 2 the state lookup fails otherwise

	// liveness answers for token ids (userinfo / introspection)
	userinfoCalls, introspectCalls int
	lastTokenID, lastSubject, lastOrigin, lastCaller string
	liveOK                                     bool
}

var errVerifStorage = errors.New("storage: backend failure")

// fault decides whether this storage call fails (at most one per run).
func (s *verifStorage) fault(name string) error {
	s.journal = append(s.journal, name)
	if !s.faultsOn || s.nfaults >= 1+nd.Param("extrafaults", 0) {
		return nil
	}
	if nd.Bool("fault." + name) {
		s.nfaults++
		if s.faulted == "" {
			s.faulted = name
		}
		switch nd.Choice("faultkind", 3) {
		case 0:
			s.faultErr = errVerifStorage
		case 1:
			s.faultErr = context.DeadlineExceeded
		default:
			s.faultErr = oidc.ErrServerError().WithDescription("storage says no")
		}
		return s.faultErr
	}
	return nil
}

func (s *verifStorage) called(name string) int {
	n := 0
	for _, j := range s.journal {
		if j == name {
			n++
		}
	}
	return n
}

func (s *verifStorage) client(id string) *verifClient {
	for _, c := range s.clients {
		if c.id == id {
			return c
		}
	}
	return nil
}

func (s *verifStorage) CreateAuthRequest(ctx context.Context, r *oidc.AuthRequest, userID string) (AuthRequest, error) {
	if err := s.fault("CreateAuthRequest"); err != nil {
		return nil, err
	}
	a := &verifAuthReq{id: "authreq-1", clientID: r.ClientID, subject: userID, nonce: r.Nonce, state: r.State,
		redirectURI: r.RedirectURI, scopes: r.Scopes, responseType: r.ResponseType, responseMode: r.ResponseMode}
	if r.CodeChallenge != "" {
		a.challenge = &oidc.CodeChallenge{Challenge: r.CodeChallenge, Method: r.CodeChallengeMethod}
	}
	s.authReq = a
	return a, nil
}
func (s *verifStorage) AuthRequestByID(ctx context.Context, id string) (AuthRequest, error) {
	if err := s.fault("AuthRequestByID"); err != nil {
		return nil, err
	}
	if s.authReq != nil && id == s.authReq.id && !s.isDeleted(id) {
		return s.authReq, nil
	}
	return nil, errors.New("auth request not found")
}
func (s *verifStorage) isDeleted(id string) bool {
	for _, d := range s.deleted {
		if d == id {
			return true
		}
	}
	return false
}
func (s *verifStorage) AuthRequestByCode(ctx context.Context, code string) (AuthRequest, error) {
	if err := s.fault("AuthRequestByCode"); err != nil {
		return nil, err
	}
	if s.authReq != nil && s.code != "" && code == s.code && !s.isDeleted(s.authReq.id) {
		return s.authReq, nil
	}
	return nil, errors.New("code not found")
}
func (s *verifStorage) SaveAuthCode(ctx context.Context, id, code string) error {
	if err := s.fault("SaveAuthCode"); err != nil {
		return err
	}
	s.code = code
	return nil
}
func (s *verifStorage) DeleteAuthRequest(ctx context.Context, id string) error {
	if err := s.fault("DeleteAuthRequest"); err != nil {
		return err
	}
	s.deleted = append(s.deleted, id)
	return nil
}
func (s *verifStorage) CreateAccessToken(ctx context.Context, req TokenRequest) (string, time.Time, error) {
	if err := s.fault("CreateAccessToken"); err != nil {
		return "", time.Time{}, err
	}
	c := verifCreated{req: req, id: nd.Str("at.id"), exp: time.Unix(nd.Int("at.exp", 1<<30, 1<<32), 0)}
	s.created = append(s.created, c)
	return c.id, c.exp, nil
}
func (s *verifStorage) CreateAccessAndRefreshTokens(ctx context.Context, req TokenRequest, current string) (string, string, time.Time, error) {
	if err := s.fault("CreateAccessAndRefreshTokens"); err != nil {
		return "", "", time.Time{}, err
	}
	c := verifCreated{req: req, withRefresh: true, currentRefresh: current, id: nd.Str("at.id"), newRefresh: nd.Str("rt.new"), exp: time.Unix(nd.Int("at.exp", 1<<30, 1<<32), 0)}
	s.created = append(s.created, c)
	return c.id, c.newRefresh, c.exp, nil
}
func (s *verifStorage) TokenRequestByRefreshToken(ctx context.Context, tok string) (RefreshTokenRequest, error) {
	if err := s.fault("TokenRequestByRefreshToken"); err != nil {
		return nil, err
	}
	if s.refreshReq != nil && tok == s.refreshTok {
		return s.refreshReq, nil
	}
	return nil, errors.New("refresh token not found")
}
func (s *verifStorage) TerminateSession(ctx context.Context, userID, clientID string) error {
	if err := s.fault("TerminateSession"); err != nil {
		return err
	}
	s.lastSubject, s.lastCaller = userID, clientID
	return nil
}
func (s *verifStorage) RevokeToken(ctx context.Context, tokenOrID, userID, clientID string) *oidc.Error {
	if err := s.fault("RevokeToken"); err != nil {
		return oidc.ErrServerError().WithParent(err)
	}
	s.revoked = append(s.revoked, tokenOrID)
	s.lastTokenID, s.lastSubject, s.lastCaller = tokenOrID, userID, clientID
	return nil
}
func (s *verifStorage) GetRefreshTokenInfo(ctx context.Context, clientID, token string) (string, string, error) {
	if err := s.fault("GetRefreshTokenInfo"); err != nil {
		return "", "", err
	}
	if s.refreshReq != nil && token == s.refreshTok {
		return s.refreshReq.subject, "rt-id", nil
	}
	return "", "", ErrInvalidRefreshToken
}
func (s *verifStorage) SigningKey(ctx context.Context) (SigningKey, error) {
	if err := s.fault("SigningKey"); err != nil {
		return nil, err
	}
	return &verifSigningKey{alg: jose.SignatureAlgorithm(s.signAlg), key: s.signPriv, id: s.signKeyID}, nil
}
func (s *verifStorage) SignatureAlgorithms(ctx context.Context) ([]jose.SignatureAlgorithm, error) {
	if err := s.fault("SignatureAlgorithms"); err != nil {
		return nil, err
	}
	return []jose.SignatureAlgorithm{jose.SignatureAlgorithm(s.signAlg)}, nil
}
func (s *verifStorage) KeySet(ctx context.Context) ([]Key, error) {
	if err := s.fault("KeySet"); err != nil {
		return nil, err
	}
	keys := []Key{&verifPubKey{alg: jose.SignatureAlgorithm(s.signAlg), key: s.signPub, id: s.signKeyID}}
	if s.rotating {
		_, prev := nd.KeyPair("op-key-0", s.signAlg)
		keys = append(keys, &verifPubKey{alg: jose.SignatureAlgorithm(s.signAlg), key: prev, id: "op-key-0"})
	}
	return keys, nil
}
func (s *verifStorage) GetClientByClientID(ctx context.Context, id string) (Client, error) {
	if err := s.fault("GetClientByClientID"); err != nil {
		return nil, err
	}
	for _, g := range s.globClients {
		if g.id == id {
			return g, nil
		}
	}
	if c := s.client(id); c != nil {
		return c, nil
	}
	return nil, errors.New("client not found")
}
func (s *verifStorage) AuthorizeClientIDSecret(ctx context.Context, id, secret string) error {
	if err := s.fault("AuthorizeClientIDSecret"); err != nil {
		return err
	}
	if c := s.client(id); c != nil && secret == c.secret {
		s.secretOK = append(s.secretOK, id)
		return nil
	}
	return errors.New("invalid secret")
}
func (s *verifStorage) SetUserinfoFromScopes(ctx context.Context, u *oidc.UserInfo, userID, clientID string, scopes []string) error {
	if err := s.fault("SetUserinfoFromScopes"); err != nil {
		return err
	}
	u.Subject = userID
	for _, sc := range scopes {
		if sc == oidc.ScopeEmail {
			u.Email = "user@example.com"
		}
		if sc == oidc.ScopeProfile {
			u.Name = "User Name"
		}
	}
	return nil
}
func (s *verifStorage) SetUserinfoFromToken(ctx context.Context, u *oidc.UserInfo, tokenID, subject, origin string) error {
	if err := s.fault("SetUserinfoFromToken"); err != nil {
		return err
	}
	s.userinfoCalls++
	s.lastTokenID, s.lastSubject, s.lastOrigin = tokenID, subject, origin
	if !s.liveOK {
		return errors.New("token is not live")
	}
	u.Subject = subject
	u.Email = "user@example.com"
	return nil
}
func (s *verifStorage) SetIntrospectionFromToken(ctx context.Context, r *oidc.IntrospectionResponse, tokenID, subject, clientID string) error {
	if err := s.fault("SetIntrospectionFromToken"); err != nil {
		return err
	}
	s.introspectCalls++
	s.lastTokenID, s.lastSubject, s.lastCaller = tokenID, subject, clientID
	if !s.liveOK {
		return errors.New("token is not live or caller not in audience")
	}
	r.Subject = subject
	r.Username = "user"
	return nil
}
func (s *verifStorage) GetPrivateClaimsFromScopes(ctx context.Context, userID, clientID string, scopes []string) (map[string]any, error) {
	if err := s.fault("GetPrivateClaimsFromScopes"); err != nil {
		return nil, err
	}
	return map[string]any{"tenant": "t1"}, nil
}
func (s *verifStorage) GetKeyByIDAndClientID(ctx context.Context, keyID, clientID string) (*jose.JSONWebKey, error) {
	if err := s.fault("GetKeyByIDAndClientID"); err != nil {
		return nil, err
	}
	if c := s.client(clientID); c != nil && c.keyPub != nil && keyID == c.keyID {
		s.keyServed = append(s.keyServed, clientID)
		return &jose.JSONWebKey{KeyID: c.keyID, Use: "sig", Key: c.keyPub}, nil
	}
	return nil, errors.New("key not found")
}
func (s *verifStorage) ValidateJWTProfileScopes(ctx context.Context, userID string, scopes []string) ([]string, error) {
	if err := s.fault("ValidateJWTProfileScopes"); err != nil {
		return nil, err
	}
	return scopes, nil
}
func (s *verifStorage) Health(ctx context.Context) error { return s.fault("Health") }

func (s *verifStorage) createdTokens() bool { return len(s.created) > 0 }

// ---------------- response recorder ----------------

type verifRec struct {
	hdr          http.Header
	status       int
	headerWrites int
	chunks       [][]byte
}

func newVerifRec() *verifRec { return &verifRec{hdr: http.Header{}} }

func (r *verifRec) Header() http.Header { return r.hdr }
func (r *verifRec) WriteHeader(code int) {
	r.headerWrites++
	if r.status == 0 {
		r.status = code
	}
}
func (r *verifRec) Write(b []byte) (int, error) {
	if r.status == 0 {
		r.status = 200
	}
	r.chunks = append(r.chunks, b)
	return len(b), nil
}

// body is everything written, as one string.
func (r *verifRec) body() string {
	out := ""
	for _, c := range r.chunks {
		out += string(c)
	}
	return out
}

// tokenResponse decodes the body as a token response (false if the body is not one JSON document).
func (r *verifRec) tokenResponse() (*oidc.AccessTokenResponse, bool) {
	if len(r.chunks) != 1 {
		return nil, false
	}
	resp := new(oidc.AccessTokenResponse)
	if err := json.Unmarshal(r.chunks[0], resp); err != nil {
		return nil, false
	}
	return resp, true
}

type verifErrDoc struct {
	Error       string `json:"error"`
	Description string `json:"error_description"`
}

func (r *verifRec) oauthError() (string, bool) {
	if len(r.chunks) != 1 {
		return "", false
	}
	doc := new(verifErrDoc)
	if err := json.Unmarshal(r.chunks[0], doc); err != nil {
		return "", false
	}
	return doc.Error, doc.Error != ""
}

func (r *verifRec) hasTokens() bool {
	resp, ok := r.tokenResponse()
	return ok && (resp.AccessToken != "" || resp.IDToken != "" || resp.RefreshToken != "")
}

// ---------------- provider and routers ----------------

const verifIssuer = "https://op.example.com"

func verifProvider(st Storage) *Provider {
	dec := schema.NewDecoder()
	dec.IgnoreUnknownKeys(true)
	ks := &OpenIDKeySet{st}
	return &Provider{
		config: &Config{
			CodeMethodS256:          nd.Bool("cfg.s256"),
			AuthMethodPost:          nd.Bool("cfg.post"),
			AuthMethodPrivateKeyJWT: nd.Bool("cfg.pkjwt"),
			GrantTypeRefreshToken:   nd.Bool("cfg.refresh"),
			RequestObjectSupported:  nd.Bool("cfg.reqobj"),
			DefaultLogoutRedirectURI: "https://op.example.com/logged-out",
		},
		storage:           st,
		accessTokenKeySet: ks,
		idTokenHinKeySet:  ks,
		endpoints:         DefaultEndpoints,
		crypto:            NewAESCrypto([32]byte{1, 2, 3, 4, 5, 6, 7, 8, 9, 10, 11, 12, 13, 14, 15, 16, 17, 18, 19, 20, 21, 22, 23, 24, 25, 26, 27, 28, 29, 30, 31, 32}),
		decoder:           dec,
		encoder:           oidc.NewEncoder(),
		logger:            slog.Default(),
	}
}

func verifWebServer(p *Provider) *webServer {
	dec := schema.NewDecoder()
	dec.IgnoreUnknownKeys(true)
	return &webServer{server: NewLegacyServer(p, *DefaultEndpoints), endpoints: *DefaultEndpoints, decoder: dec, logger: slog.Default()}
}

func verifWithIssuer(r *http.Request) *http.Request {
	return r.WithContext(ContextWithIssuer(r.Context(), verifIssuer))
}

// verifCreds is how a request presents client credentials.
type verifCreds struct {
	mode               int // 0 none, 1 basic (well-formed), 2 basic with malformed escape, 3 form secret
	id, secret         string
	assertion, atype   string
}

// verifTokenRequest builds the POST to the token endpoint. form carries the grant parameters.
func verifTokenRequest(form url.Values, cr *verifCreds, badForm bool) *http.Request {
	return verifPostRequest("/oauth/token", form, cr, badForm)
}

// verifPostRequest builds a POST to an endpoint of the provider. cr.mode: 0 none, 1 Basic, 2 Basic with a
// malformed percent-escape, 3 client_secret in the form, 4 client_assertion (+ type) in the form.
func verifPostRequest(path string, form url.Values, cr *verifCreds, badForm bool) *http.Request {
	user, pass, has := "", "", false
	switch cr.mode {
	case 1:
		user, pass, has = url.QueryEscape(cr.id), url.QueryEscape(cr.secret), true
	case 2:
		user, pass, has = "%zz"+cr.id, cr.secret, true
	case 3:
		form.Set("client_secret", cr.secret)
	case 4:
		form.Set("client_assertion", cr.assertion)
		form.Set("client_assertion_type", cr.atype)
	}
	return verifWithIssuer(nd.Request("POST", path, form, user, pass, has, badForm))
}

func verifSetupSigning(st *verifStorage, alg string) {
	st.signAlg = alg
	st.signKeyID = "op-key-1"
	st.signPriv, st.signPub = nd.KeyPair("op-key-1", alg)
}
