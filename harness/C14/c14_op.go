package op

// C14 — JWT assertions (private_key_jwt / jwt-bearer) and request objects count only when signed by
// the client they name.

import (
	"context"
	"net/url"
	"time"

	jose "github.com/go-jose/go-jose/v4"

	nd "github.com/zitadel/oidc/v3/internal/verifnd"
	"github.com/zitadel/oidc/v3/pkg/client"
	"github.com/zitadel/oidc/v3/pkg/crypto"
	"github.com/zitadel/oidc/v3/pkg/oidc"
)

type verifC14Assertion struct {
	tok           string
	iss, sub      string
	aud           []string
	iat, exp      int64
	signer        int // 0 clientA's registered key, 1 clientB's registered key, 2 a key nobody registered
	kidOf         int // whose kid the header carries: 0 clientA's, 1 clientB's
}

type verifC14 struct {
	st *verifStorage
}

func verifC14Env() *verifC14 {
	h := &verifC14{st: &verifStorage{}}
	h.st.clients = []*verifClient{verifNewClient("cA", "clientA", nil, 4), verifNewClient("cB", "clientB", nil, 4)}
	verifGiveKeys(h.st)
	verifSetupSigning(h.st, "RS256")
	return h
}

func verifC14Sign(claims any, priv any, kid string) string {
	signer, err := jose.NewSigner(jose.SigningKey{Algorithm: jose.RS256, Key: &jose.JSONWebKey{Key: priv, KeyID: kid}}, nil)
	if err != nil {
		nd.Assume(false)
	}
	tok, err := crypto.Sign(claims, signer)
	if err != nil {
		nd.Assume(false)
	}
	return tok
}

func (h *verifC14) key(signer, kidOf int) (any, string) {
	kid := h.st.clients[kidOf].keyID
	switch signer {
	case 0:
		return h.st.clients[0].keyPriv, kid
	case 1:
		return h.st.clients[1].keyPriv, kid
	}
	priv, _ := nd.KeyPair("nobody-key", "RS256")
	return priv, kid
}

func (h *verifC14) assertion(tag string) *verifC14Assertion {
	a := &verifC14Assertion{iss: nd.Str(tag + ".iss"), sub: nd.Str(tag + ".sub"), iat: nd.Int(tag+".iat", 0, 1<<33), exp: nd.Int(tag+".exp", 0, 1<<33),
		signer: nd.Choice(tag+".signer", 3), kidOf: nd.Choice(tag+".kid", 2)}
	a.aud = []string{nd.Str(tag + ".aud0")}
	if nd.Choice(tag+".naud", 2) == 1 {
		a.aud = append(a.aud, nd.Str(tag+".aud1"))
	}
	priv, kid := h.key(a.signer, a.kidOf)
	a.tok = verifC14Sign(&oidc.JWTTokenRequest{Issuer: a.iss, Subject: a.sub, Audience: oidc.Audience(a.aud),
		IssuedAt: oidc.Time(a.iat), ExpiresAt: oidc.Time(a.exp)}, priv, kid)
	return a
}

// accepted: what must hold of an assertion the provider accepted (soundness, 1 s rounding margin)
func (h *verifC14) accepted(a *verifC14Assertion, got *oidc.JWTTokenRequest, maxAge, offset time.Duration, first, last int64, what string) {
	const sec = int64(time.Second)
	owner := ""
	if a.signer < 2 {
		owner = h.st.clients[a.signer].id
	}
	nd.Assert(a.signer < 2 && a.iss == owner && a.kidOf == a.signer, what+": signed with a key the storage holds for the client named as issuer")
	nd.Assert(nd.Contains(a.aud, verifIssuer), what+": audience contains the provider's issuer")
	nd.Assert(a.exp*sec > first+int64(offset)-sec, what+": not expired")
	nd.Assert(a.iat != 0, what+": iat present")
	nd.Assert(a.iat*sec <= last+int64(offset)+sec, what+": not issued in the future")
	if maxAge != 0 {
		nd.Assert(a.iat*sec >= first-int64(maxAge)-sec, what+": not issued longer ago than the allowed age")
	}
	nd.Assert(a.sub == a.iss, what+": subject equals issuer")
	nd.Assert(got != nil && got.Issuer == a.iss && got.Subject == a.sub, what+": the authenticated identity is exactly the issuer")
}

// VerifC14Assertion: two assertions, one after the other, on ONE verifier (as a server holding a
// verifier would use it).
func VerifC14Assertion() {
	h := verifC14Env()
	maxAge := time.Duration(nd.Int("v.maxage.s", 0, 1<<20)) * time.Second
	offset := time.Duration(nd.Int("v.offset.ms", 0, 1<<20)) * time.Millisecond
	v := NewJWTProfileVerifier(h.st, verifIssuer, maxAge, offset)
	n := nd.Param("calls", 2)
	for i := 0; i < n; i++ {
		tag := "a1"
		if i == 1 {
			tag = "a2"
		}
		a := h.assertion(tag)
		first := nd.ClockLast()
		got, err := VerifyJWTAssertion(context.Background(), a.tok, v)
		last := nd.ClockLast()
		if err == nil {
			if i == 0 {
				nd.Cover("assertion-accepted")
			} else {
				nd.Cover("second-assertion-accepted")
			}
			h.accepted(a, got, maxAge, offset, first, last, tag)
		} else {
			nd.Cover("assertion-rejected")
			nd.Assert(got == nil, "no identity is returned with an error")
		}
	}
}

// VerifC14Interop: an assertion produced by the library's own client helper is accepted.
func VerifC14Interop() {
	h := verifC14Env()
	c := h.st.clients[nd.Choice("who", 2)]
	signer, err := jose.NewSigner(jose.SigningKey{Algorithm: jose.RS256, Key: &jose.JSONWebKey{Key: c.keyPriv, KeyID: c.keyID}}, nil)
	if err != nil {
		nd.Assume(false)
	}
	exp := time.Duration(nd.Int("exp.s", 3, 3600)) * time.Second
	aud := []string{verifIssuer}
	if nd.Choice("aud.extra", 2) == 1 {
		aud = []string{nd.Str("aud.other"), verifIssuer}
	}
	tok, err := client.SignedJWTProfileAssertion(c.id, aud, exp, signer)
	if err != nil {
		nd.Assume(false)
	}
	v := NewJWTProfileVerifier(h.st, verifIssuer, time.Hour, time.Second)
	// verified within a second of being produced
	nd.Assume(nd.ClockLast()-nd.ClockFirst() >= 0)
	t0 := nd.ClockLast()
	got, verr := VerifyJWTAssertion(context.Background(), tok, v)
	if nd.ClockLast()-t0 > int64(time.Second) {
		return // clock advanced by more than a second during verification: outside the interop claim
	}
	nd.Cover("interop")
	nd.Assert(verr == nil && got != nil && got.Issuer == c.id, "an assertion made by client.SignedJWTProfileAssertion is accepted by the provider as that client")
}

// VerifC14Bearer: the jwt-bearer grant on the token endpoint.
func VerifC14Bearer() {
	h := verifC14Env()
	p := verifProvider(h.st)
	a := h.assertion("a1")
	form := url.Values{}
	form.Set("grant_type", string(oidc.GrantTypeBearer))
	form.Set("assertion", a.tok)
	rec := newVerifRec()
	first := nd.ClockLast()
	Exchange(rec, verifTokenRequest(form, &verifCreds{}, false), p)
	last := nd.ClockLast()
	if rec.status == 200 {
		nd.Cover("bearer-tokens")
		h.accepted(a, &oidc.JWTTokenRequest{Issuer: a.iss, Subject: a.sub}, time.Hour, time.Second, first, last, "jwt-bearer")
		nd.Assert(len(h.st.created) == 1 && h.st.created[0].req.GetSubject() == a.iss, "the token is issued for the assertion's issuer")
	} else {
		nd.Cover("bearer-refused")
		nd.Assert(len(h.st.created) == 0 && !rec.hasTokens(), "no token for a refused assertion")
	}
}

// VerifC14RequestObject: parameters of a request object override the plain parameters only when the
// object is signed by the requesting client, names it, targets this issuer and agrees with the outer
// client_id and response_type.
func VerifC14RequestObject() {
	h := verifC14Env()
	outer := h.st.clients[nd.Choice("outer.client", 2)].id
	if nd.Choice("outer.other", 2) == 1 {
		outer = nd.Str("outer.client_id")
	}
	outerRT := oidc.ResponseType(nd.Str("outer.response_type"))
	signer, kidOf := nd.Choice("ro.signer", 3), nd.Choice("ro.kid", 2)
	priv, kid := h.key(signer, kidOf)
	ro := &oidc.RequestObject{Issuer: nd.Str("ro.iss"), Audience: oidc.Audience{nd.Str("ro.aud0")},
		AuthRequest: oidc.AuthRequest{ClientID: nd.Str("ro.client_id"), ResponseType: oidc.ResponseType(nd.Str("ro.response_type")),
			State: nd.Str("ro.state"), Nonce: nd.Str("ro.nonce"), RedirectURI: nd.Str("ro.redirect_uri")}}
	if nd.Choice("ro.naud", 2) == 1 {
		ro.Audience = append(ro.Audience, nd.Str("ro.aud1"))
	}
	tok := verifC14Sign(ro, priv, kid)
	authReq := &oidc.AuthRequest{ClientID: outer, ResponseType: outerRT, State: "outer-state", Nonce: "outer-nonce",
		RedirectURI: "https://outer.example/cb", Scopes: oidc.SpaceDelimitedArray{"openid"}, RequestParam: tok}
	err := ParseRequestObject(context.Background(), authReq, h.st, verifIssuer)
	if err == nil {
		nd.Cover("request-object-applied")
		owner := ""
		if signer < 2 {
			owner = h.st.clients[signer].id
		}
		nd.Assert(signer < 2 && kidOf == signer && ro.Issuer == owner, "the object is signed with a key the storage holds for the client it names as issuer")
		nd.Assert(ro.Issuer == outer, "the issuer is the requesting client (outer client_id)")
		nd.Assert(ro.ClientID == outer, "the object's client_id agrees with the outer client_id")
		nd.Assert(ro.ResponseType == "" || ro.ResponseType == outerRT, "the object's response_type agrees with the outer one")
		nd.Assert(nd.Contains([]string(ro.Audience), verifIssuer), "the object targets this issuer as audience")
		nd.Assert(authReq.RequestParam == "", "the request parameter is consumed")
		nd.Assert(authReq.State == pick(ro.State, "outer-state") && authReq.Nonce == pick(ro.Nonce, "outer-nonce") && authReq.RedirectURI == pick(ro.RedirectURI, "https://outer.example/cb"),
			"present object parameters override the plain ones, absent ones leave them")
		nd.Assert(authReq.ClientID == outer && authReq.ResponseType == outerRT, "client_id and response_type stay the outer ones")
	} else {
		nd.Cover("request-object-rejected")
		nd.Assert(authReq.State == "outer-state" && authReq.Nonce == "outer-nonce" && authReq.RedirectURI == "https://outer.example/cb" && authReq.ClientID == outer,
			"a rejected object leaves the plain parameters untouched")
	}
}

func pick(a, b string) string {
	if a != "" {
		return a
	}
	return b
}
