package op

// C11 — authorization response parameters arrive intact. op.AuthResponseURL (mergeQueryParams / setFragment,
// httphelper.URLEncodeParams) is executed together with the real net/url code it drives (Values.Encode,
// QueryEscape, URL.String, EscapedFragment ...) on byte vectors: one parameter value of n arbitrary bytes.
// The receiving side is a user agent: it splits the Location at the first '?' resp. '#' and parses the
// parameter list (url.ParseQuery, also executed from its real body).

import (
	"errors"
	"net/url"

	nd "github.com/zitadel/oidc/v3/internal/verifnd"
	"github.com/zitadel/oidc/v3/pkg/oidc"
)

var verifC11URIs = []string{"https://rp.example/cb", "https://rp.example/cb?x=1&y=a+b%26c", "app://cb", "com.example.app:/cb"}

type verifC11Resp struct {
	Code         string `schema:"code"`
	State        string `schema:"state,omitempty"`
	SessionState string `schema:"session_state,omitempty"`
}

// after: the part of s behind the first occurrence of sep ("" and false if there is none)
func verifC11After(s string, sep byte) (string, bool) {
	for i := 0; i < len(s); i++ {
		if s[i] == sep {
			return s[i+1:], true
		}
	}
	return "", false
}

func verifC11Before(s string, sep byte) string {
	for i := 0; i < len(s); i++ {
		if s[i] == sep {
			return s[:i]
		}
	}
	return s
}

func verifC11Check(out string, fragment bool, uriIdx int, want map[string]string) {
	var list string
	var ok bool
	if fragment {
		list, ok = verifC11After(out, '#')
		nd.Assert(ok, "fragment mode puts the parameters behind '#'")
	} else {
		rest, has := verifC11After(out, '?')
		nd.Assert(has, "query mode puts the parameters behind '?'")
		list, ok = verifC11Before(rest, '#'), has
	}
	if !ok {
		return
	}
	got, err := url.ParseQuery(list)
	nd.Assert(err == nil, "the parameter list parses")
	if err != nil {
		return
	}
	for k, v := range want {
		nd.Assert(len(got[k]) == 1 && got[k][0] == v, "parameter "+k+" arrives with exactly the value that was sent")
	}
	if uriIdx == 1 {
		// query parameters already present in the registered redirect URI are preserved
		var q url.Values
		if fragment {
			q, err = url.ParseQuery(verifC11Before(verifC11AfterOr(out, '?'), '#'))
		} else {
			q = got
		}
		nd.Assert(err == nil && len(q["x"]) == 1 && q["x"][0] == "1" && len(q["y"]) == 1 && q["y"][0] == "a b&c", "query parameters of the registered redirect URI are preserved")
	}
}

func verifC11AfterOr(s string, sep byte) string {
	r, _ := verifC11After(s, sep)
	return r
}

func verifC11Value(tag string) string {
	n := nd.Choice(tag+".len", nd.Param("maxlen", 2)+1)
	return nd.Bytes(tag, n)
}

// success responses: state (symbolic bytes) next to a code
func VerifC11Success() {
	uriIdx := nd.Choice("uri", len(verifC11URIs))
	fragment := nd.Choice("mode", 2) == 1
	mode := oidc.ResponseModeQuery
	if fragment {
		mode = oidc.ResponseModeFragment
	}
	state := verifC11Value("state")
	resp := &verifC11Resp{Code: "c0de-1", State: state}
	out, err := AuthResponseURL(verifC11URIs[uriIdx], oidc.ResponseTypeCode, mode, resp, oidc.NewEncoder())
	nd.Assert(err == nil, "a parsable redirect URI yields a response URL")
	if err != nil {
		return
	}
	if fragment {
		nd.Cover("fragment")
	} else {
		nd.Cover("query")
	}
	want := map[string]string{"code": "c0de-1"}
	if state != "" {
		want["state"] = state
	}
	verifC11Check(out, fragment, uriIdx, want)
}

// error responses: error_description (symbolic bytes) and state
func VerifC11Error() {
	uriIdx := nd.Choice("uri", len(verifC11URIs))
	fragment := nd.Choice("mode", 2) == 1
	mode := oidc.ResponseModeQuery
	if fragment {
		mode = oidc.ResponseModeFragment
	}
	desc := verifC11Value("desc")
	e := oidc.ErrInvalidRequest()
	e.Description = desc
	e.State = "st4te"
	out, err := AuthResponseURL(verifC11URIs[uriIdx], oidc.ResponseTypeCode, mode, e, oidc.NewEncoder())
	nd.Assert(err == nil, "a parsable redirect URI yields a response URL")
	if err != nil {
		return
	}
	if fragment {
		nd.Cover("fragment")
	} else {
		nd.Cover("query")
	}
	want := map[string]string{"error": "invalid_request", "state": "st4te"}
	if desc != "" {
		want["error_description"] = desc
	}
	verifC11Check(out, fragment, uriIdx, want)
}

// error redirects of the authorization endpoint: the text of a non-OAuth error (storage / implementation error)
// becomes the error_description of the redirect
func VerifC11ErrorRedirect() {
	uriIdx := nd.Choice("uri", len(verifC11URIs))
	desc := verifC11Value("desc")
	nd.Assume(desc != "")
	st := &verifStorage{}
	verifSetupSigning(st, "RS256")
	p := verifProvider(st)
	authReq := &oidc.AuthRequest{RedirectURI: verifC11URIs[uriIdx], ResponseType: oidc.ResponseTypeCode, State: "st4te", ClientID: "clientA"}
	rec := newVerifRec()
	AuthRequestError(rec, verifWithIssuer(nd.Request("GET", "/authorize", url.Values{}, "", "", false, false)), authReq, errors.New(desc), p)
	nd.Assert(rec.status == 302, "a non-OAuth error of a validated request is redirected")
	if rec.status != 302 {
		return
	}
	nd.Cover("error-redirect")
	verifC11Check(rec.hdr.Get("Location"), false, uriIdx, map[string]string{"error": "server_error", "state": "st4te", "error_description": desc})
}

// form_post: data flow into the page (values and action unmodified); escaping itself is html/template's
func VerifC11FormPost() {
	state := nd.Bytes("state", 3)
	for i := 0; i < len(state); i++ {
		// printable ASCII (html/template replaces NUL and invalid UTF-8; its escaper is outside the encoding)
		nd.Assume(state[i] >= 0x20 && state[i] < 0x7f)
	}
	uri := verifC11URIs[nd.Choice("uri", 2)]
	rec := newVerifRec()
	err := AuthResponseFormPost(rec, uri, &verifC11Resp{Code: "c0de-1", State: state}, oidc.NewEncoder())
	nd.Assert(err == nil && rec.status == 200, "the form_post page is served with status 200")
	nd.Assert(rec.hdr.Get("Cache-Control") == "no-store", "the form_post page is not cacheable")
	nd.Cover("form-post")
	body := rec.body()
	action, ok := nd.FormAction(body)
	nd.Assert(ok && action == uri, "the form posts to the redirect URI")
	st, ok := nd.FormField(body, "state")
	nd.Assert(ok && st == state, "the state field carries the value unchanged")
	code, ok := nd.FormField(body, "code")
	nd.Assert(ok && code == "c0de-1", "the code field carries the value unchanged")
}
