package op

// C18 — logout redirects only to post-logout URIs registered for the proven client.
// End-session endpoint of both routers, one request from an arbitrary registration.

import (
	"net/url"
	"path"

	jose "github.com/go-jose/go-jose/v4"

	nd "github.com/zitadel/oidc/v3/internal/verifnd"
	"github.com/zitadel/oidc/v3/pkg/crypto"
	"github.com/zitadel/oidc/v3/pkg/oidc"
)

const verifDefaultLogout = "https://op.example.com/logged-out"

// candidate pools: registered URIs with and without glob meta characters, globs, requested URIs
// (registered ones, near misses that a pattern reading of a registered URI would accept, other hosts)
var (
	verifC18Registered = []string{"https://a.example/logout?done=1", "https://a.example/logged-out", "http://[::1]/logged-out"}
	verifC18Globs      = []string{"https://a.example/*/logout", "https://*.a.example/cb"}
	verifC18Requested  = []string{"https://a.example/logout?done=1", "https://a.example/logout_done=1", "https://a.example/logged-out",
		"http://[::1]/logged-out", "http://:/logged-out", "https://a.example/x/logout", "https://a.example/x/y/logout", "https://evil.a.example/cb", "https://b.example/"}
)

type verifC18 struct {
	st       *verifStorage
	p        *Provider
	form     url.Values
	hintKind int // 0 absent, 1 signed by the provider, 2 signed by a foreign key
	iss, sub string
	azp      string
	aud      []string
	exp, iat int64
	clientID string // the client_id parameter
	uri      string // the requested post_logout_redirect_uri
	state    string
	hasGlobs bool
	pool     bool
	globs    []string
}

func verifC18Env() *verifC18 {
	h := &verifC18{st: &verifStorage{}}
	// two clients; each registers one or two post-logout URIs; clientA may have opted into globs
	cA := verifNewClient("cA", "clientA", nil, 3)
	cB := verifNewClient("cB", "clientB", nil, 3)
	// uris.mode 0: arbitrary strings (url / glob functions uninterpreted); 1: a concrete candidate pool on
	// which the real path.Match / net/url semantics apply (realisable counterexamples)
	h.pool = nd.Choice("uris.mode", 2) == 1
	if h.pool {
		cA.postLogoutURIs = []string{verifC18Registered[nd.Choice("cA.logout.pool", len(verifC18Registered))]}
	} else {
		cA.postLogoutURIs = []string{"https://a.example/" + nd.Str("cA.logout0")}
		if nd.Choice("cA.nlogout", 2) == 1 {
			cA.postLogoutURIs = append(cA.postLogoutURIs, "https://a.example/"+nd.Str("cA.logout1"))
		}
	}
	cB.postLogoutURIs = []string{"https://b.example/" + nd.Str("cB.logout0")}
	h.st.clients = []*verifClient{cA, cB}
	if nd.Choice("cA.globs", 2) == 1 {
		h.hasGlobs = true
		if h.pool {
			h.globs = []string{verifC18Globs[nd.Choice("cA.glob.pool", len(verifC18Globs))]}
		} else {
			h.globs = []string{nd.Str("cA.glob0")}
		}
		h.st.globClients = []*verifGlobClient{{verifClient: cA, postLogoutGlobs: h.globs}}
	}
	verifSetupSigning(h.st, "RS256")
	h.p = verifProvider(h.st)
	h.form = url.Values{}
	h.hintKind = nd.Choice("hint.kind", 3)
	if h.hintKind != 0 {
		h.iss, h.sub, h.azp = nd.Str("hint.iss"), nd.Str("hint.sub"), nd.Str("hint.azp")
		h.exp, h.iat = nd.Int("hint.exp", 0, 1<<33), nd.Int("hint.iat", 0, 1<<33)
		h.aud = []string{nd.Str("hint.aud0")}
		if nd.Choice("hint.naud", 2) == 1 {
			h.aud = append(h.aud, nd.Str("hint.aud1"))
		}
		claims := &oidc.IDTokenClaims{TokenClaims: oidc.TokenClaims{Issuer: h.iss, Subject: h.sub, AuthorizedParty: h.azp,
			Audience: oidc.Audience(h.aud), Expiration: oidc.Time(h.exp), IssuedAt: oidc.Time(h.iat)}}
		priv, kid := h.st.signPriv, h.st.signKeyID
		if h.hintKind == 2 {
			priv, _ = nd.KeyPair("foreign-key", "RS256")
			if nd.Choice("foreign.kid", 2) == 1 {
				kid = "foreign-key"
			}
		}
		signer, err := jose.NewSigner(jose.SigningKey{Algorithm: jose.RS256, Key: &jose.JSONWebKey{Key: priv, KeyID: kid}}, nil)
		if err != nil {
			nd.Assume(false)
		}
		tok, err := crypto.Sign(claims, signer)
		if err != nil {
			nd.Assume(false)
		}
		h.form.Set("id_token_hint", tok)
	}
	if nd.Choice("req.client_id.given", 2) == 1 {
		h.clientID = nd.Str("req.client_id")
		nd.Assume(h.clientID != "")
		h.form.Set("client_id", h.clientID)
	}
	if nd.Choice("req.uri.given", 2) == 1 {
		h.uri = nd.Str("req.post_logout_redirect_uri")
		if h.pool {
			h.uri = verifC18Requested[nd.Choice("req.uri.pool", len(verifC18Requested))]
		}
		// an absolute URI (http.Redirect would resolve a relative one against the request path)
		nd.Assume(nd.Or(nd.HasPrefix(h.uri, "https://"), nd.Or(nd.HasPrefix(h.uri, "http://"), nd.HasPrefix(h.uri, "app://"))))
		h.form.Set("post_logout_redirect_uri", h.uri)
	}
	if nd.Choice("req.state.given", 2) == 1 {
		h.state = nd.Str("req.state")
		nd.Assume(h.state != "")
		h.form.Set("state", h.state)
	}
	return h
}

// registered: uri is a post-logout URI of client id: exactly, or by a glob the client opted into
func (h *verifC18) registered(id, uri string) bool {
	c := h.st.client(id)
	if c == nil {
		return false
	}
	for _, r := range c.postLogoutURIs {
		if r == uri {
			return true
		}
	}
	if id == "clientA" && h.hasGlobs {
		for _, g := range h.globs {
			if ok, err := path.Match(g, uri); err == nil && ok {
				return true
			}
		}
	}
	return false
}

func (h *verifC18) check(rec *verifRec) {
	loc := rec.hdr.Get("Location")
	if rec.status != 302 {
		nd.Cover("logout-refused")
		nd.Assert(rec.status >= 400, "a refusal is an error status")
		nd.Assert(loc == "", "a refusal never redirects")
		nd.Assert(h.st.called("TerminateSession") == 0, "no session is terminated for a refused request")
		return
	}
	nd.Cover("logout-redirect")
	// who is the proven client
	who := h.clientID
	if h.hintKind != 0 {
		nd.Cover("logout-with-hint")
		nd.Assert(h.hintKind == 1, "a hint signed with a foreign key is rejected")
		nd.Assert(h.iss == verifIssuer, "a hint of another issuer is rejected")
		nd.Assert(h.clientID == "" || h.clientID == h.azp, "a client_id contradicting the hint's authorized party is rejected")
		who = h.azp
		if h.exp*1000000000 < nd.ClockFirst()-2000000000 {
			nd.Cover("logout-expired-hint")
		}
	}
	// the session terminated is that of the hint's subject and the proven client
	nd.Assert(h.st.called("TerminateSession") == 1, "exactly one session termination")
	nd.Assert(h.st.lastSubject == h.sub && h.st.lastCaller == who, "the session terminated is that of the hint's subject and the proven client")
	if who != "" {
		nd.Assert(h.st.client(who) != nil, "a redirect for a named client only if it is registered")
	}
	// where the user agent is sent
	base := verifDefaultLogout
	if who != "" && h.uri != "" {
		nd.Cover("logout-to-requested-uri")
		nd.Assert(h.registered(who, h.uri), "the requested post_logout_redirect_uri is registered for the proven client (exactly or by an opted-in glob)")
		base = h.uri
	} else {
		nd.Cover("logout-to-default-uri")
	}
	want := base
	if h.state != "" {
		u, err := url.Parse(base)
		nd.Assert(err == nil, "state is only appended to a parsable target")
		if err != nil {
			return
		}
		want = mergeQueryParams(u, url.Values{"state": {h.state}})
	}
	nd.Assert(loc == want, "Location is the permitted target with the supplied state appended unchanged")
}

func VerifC18Legacy() {
	h := verifC18Env()
	rec := newVerifRec()
	EndSession(rec, verifWithIssuer(nd.Request("GET", "/end_session", h.form, "", "", false, false)), h.p)
	h.check(rec)
}

func VerifC18Server() {
	h := verifC18Env()
	ws := verifWebServer(h.p)
	rec := newVerifRec()
	ws.endSessionHandler(rec, verifWithIssuer(nd.Request("GET", "/end_session", h.form, "", "", false, false)))
	h.check(rec)
}
