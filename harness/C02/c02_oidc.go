package oidc

// C02 — only payloads signed by a trusted key with an allowed algorithm are believed.
// (1) FindMatchingKey / algToKeyType against a reference model written from the statement.
// (2) CheckSignature: accept only with exactly one signature, allowed algorithm, key-set
//     approval and byte-equal payload.

import (
	"context"
	"crypto/ecdsa"
	"crypto/ed25519"
	"crypto/rsa"
	"errors"

	jose "github.com/go-jose/go-jose/v4"

	nd "github.com/zitadel/oidc/v3/internal/verifnd"
)

func verifC02Key(kind int) any {
	switch kind {
	case 0:
		return &rsa.PublicKey{}
	case 1:
		return &ecdsa.PublicKey{}
	case 2:
		return ed25519.PublicKey(nil)
	case 3:
		return []byte("hmac-secret")
	}
	return nil
}

// which key kind an algorithm family needs (-1: none may ever be selected)
func verifC02Family(algIdx int) int {
	switch algIdx {
	case 0, 1: // RS*, PS*
		return 0
	case 2: // ES*
		return 1
	case 3: // EdDSA
		return 2
	}
	return -1
}

var verifC02Marks = []string{"k0", "k1", "k2", "k3", "k4"}

// VerifC02FindKey: oidc.FindMatchingKey vs the reference model.
func VerifC02FindKey() {
	algNames := []string{"RS256", "PS384", "ES512", "EdDSA", "HS256", "none", ""}
	algIdx := nd.Choice("alg", len(algNames)+1)
	var alg string
	if algIdx < len(algNames) {
		alg = algNames[algIdx]
	} else {
		alg = nd.Str("otheralg")
		nd.Assume(!nd.HasPrefix(alg, "RS") && !nd.HasPrefix(alg, "PS") && !nd.HasPrefix(alg, "ES") && alg != "EdDSA")
	}
	fam := verifC02Family(algIdx)
	kid := nd.Str("kid")
	use := "sig"
	if nd.Choice("usearg", 2) == 1 {
		use = nd.Str("use")
	}
	n := nd.Choice("nkeys", nd.Param("maxkeys", 2)+1)
	keys := make([]jose.JSONWebKey, n)
	kinds := make([]int, n)
	for i := 0; i < n; i++ {
		kinds[i] = nd.Choice("kind", 5)
		keys[i] = jose.JSONWebKey{Key: verifC02Key(kinds[i]), KeyID: nd.Str("k.kid"), Use: nd.Str("k.use"), Algorithm: verifC02Marks[i]}
	}

	got, err := FindMatchingKey(kid, use, alg, keys...)

	// reference model
	exact, loose, looseIdx := -1, 0, -1
	for i := 0; i < n; i++ {
		useOK := nd.Or(keys[i].Use == use, keys[i].Use == "")
		cand := nd.And(useOK, fam >= 0 && kinds[i] == fam)
		isExact := nd.And(cand, nd.And(keys[i].KeyID == kid, kid != ""))
		isLoose := nd.And(cand, nd.And(nd.Not(isExact), nd.Or(keys[i].KeyID == "", kid == "")))
		if isExact && exact < 0 {
			exact = i
		}
		if isLoose {
			loose++
			looseIdx = i
		}
	}
	switch {
	case err == nil:
		nd.Cover("key-selected")
		if exact >= 0 {
			nd.Assert(got.Algorithm == verifC02Marks[exact], "exact kid match is the key returned")
		} else {
			nd.Assert(loose == 1, "without exact match a key is returned only if it is the unique candidate")
			if loose == 1 {
				nd.Assert(got.Algorithm == verifC02Marks[looseIdx], "the unique candidate is the key returned")
			}
		}
		nd.Assert(fam >= 0, "HS*/none/unknown algorithms never select a key")
	case errors.Is(err, ErrKeyMultiple):
		nd.Cover("ambiguous")
		nd.Assert(exact < 0 && loose >= 2, "ErrKeyMultiple iff several candidates and no exact match")
		nd.Assert(got.Key == nil && got.KeyID == "", "no key returned with ErrKeyMultiple")
	case errors.Is(err, ErrKeyNone):
		nd.Cover("none")
		nd.Assert(exact < 0 && loose == 0, "ErrKeyNone iff no candidate")
		nd.Assert(got.Key == nil && got.KeyID == "", "no key returned with ErrKeyNone")
	default:
		nd.Assert(false, "FindMatchingKey returns nil, ErrKeyMultiple or ErrKeyNone")
	}
}

type verifC02KeySet struct {
	mode  int // 0 error, 1 returns the signed payload, 2 returns other bytes
	calls int
	other string
}

func (k *verifC02KeySet) VerifySignature(ctx context.Context, jws *jose.JSONWebSignature) ([]byte, error) {
	k.calls++
	switch k.mode {
	case 1:
		return jws.UnsafePayloadWithoutVerification(), nil
	case 2:
		return []byte(k.other), nil
	}
	return nil, errors.New("no key verifies this signature")
}

type verifC02Claims struct {
	Sub string `json:"sub"`
	alg jose.SignatureAlgorithm
	set int
}

func (c *verifC02Claims) SetSignatureAlgorithm(a jose.SignatureAlgorithm) { c.alg = a; c.set++ }

// VerifC02CheckSignature: oidc.CheckSignature accepts only exactly-one-signature tokens whose
// algorithm is allowed, that the key set approves and whose signed payload equals the parsed one.
func VerifC02CheckSignature() {
	alg := nd.Str("alg")
	nd.Assume(alg != "") // a header without alg is rejected by go-jose before any allow-list test
	nsig := 1 + nd.Choice("nsig", 2) // go-jose never yields zero signatures: an empty list is read as the flattened form
	claims := &verifC02Claims{Sub: nd.Str("sub")}
	tok := nd.Token(claims, alg, nd.Str("kid"), nsig)
	var algs []string
	nalgs := nd.Choice("nalgs", 3)
	for i := 0; i < nalgs; i++ {
		algs = append(algs, nd.Str("allowed"))
	}
	ks := &verifC02KeySet{mode: nd.Choice("ksmode", 3), other: nd.Str("otherpayload")}
	if ks.mode == 2 {
		if nd.Choice("otherkind", 2) == 1 {
			ks.other = string(mustPayload(tok)) + ks.other
		}
		nd.Assume(ks.other != string(mustPayload(tok)))
	}
	// the payload the caller parsed: the real one (ParseToken) or, to model confusion, other bytes
	var parsed verifC02Claims
	payload, perr := ParseToken(tok, &parsed)
	if nsig == 1 {
		nd.Assert(perr == nil, "ParseToken accepts a compact token")
	}
	if perr != nil {
		payload = []byte(nd.Str("fallbackpayload"))
	}
	switch nd.Choice("payloadarg", 4) {
	case 1: // the real payload with something appended
		sfx := nd.Str("suffix")
		nd.Assume(sfx != "")
		payload = []byte(string(payload) + sfx)
	case 2: // the real payload with something prepended
		pfx := nd.Str("prefix")
		nd.Assume(pfx != "")
		payload = []byte(pfx + string(payload))
	case 3: // unrelated bytes
		foreign := nd.Str("foreignpayload")
		nd.Assume(foreign != string(payload))
		payload = []byte(foreign)
	}
	out := &verifC02Claims{}

	err := CheckSignature(nd.Ctx(0), tok, payload, out, algs, ks)

	allowed := nd.Contains(algs, alg)
	if len(algs) == 0 {
		allowed = nd.Or(alg == "RS256", nd.Or(alg == "ES256", alg == "PS256"))
	}
	if err == nil {
		nd.Cover("accepted")
		nd.Assert(nsig == 1, "exactly one signature")
		nd.Assert(allowed, "header algorithm is in the allow-list (default RS256/ES256/PS256)")
		nd.Assert(ks.calls == 1 && ks.mode != 0, "the key set verified the signature")
		if ks.mode == 2 {
			nd.Assert(string(payload) == ks.other, "claims payload is byte-for-byte the payload the signature covers")
		} else {
			nd.Assert(string(payload) == string(mustPayload(tok)), "claims payload is byte-for-byte the payload the signature covers (token payload)")
		}
		nd.Assert(out.set == 1 && string(out.alg) == alg, "signature algorithm recorded from the verified header")
	} else {
		nd.Cover("rejected")
		nd.Assert(out.set == 0, "no algorithm recorded on rejection")
	}
	if nsig == 1 && ks.mode == 1 && perr == nil {
		// completeness for the ordinary case: allowed alg, valid signature, payload from ParseToken
		if nd.Choice("probe", 1) == 0 && string(payload) == string(mustPayload(tok)) {
			nd.Assert(nd.Implies(allowed, err == nil), "a singly and validly signed token with an allowed algorithm is accepted")
		}
	}
}

func mustPayload(tok string) []byte {
	var c verifC02Claims
	p, _ := ParseToken(tok, &c)
	return p
}

// VerifC02DefaultAlgs: toJoseSignatureAlgorithms is the identity on non-empty lists and exactly
// RS256, ES256, PS256 on empty ones.
func VerifC02DefaultAlgs() {
	n := nd.Choice("n", 4)
	var in []string
	for i := 0; i < n; i++ {
		in = append(in, nd.Str("alg"))
	}
	out := toJoseSignatureAlgorithms(in)
	if n == 0 {
		nd.Cover("default")
		nd.Assert(len(out) == 3 && out[0] == jose.RS256 && out[1] == jose.ES256 && out[2] == jose.PS256, "default allow-list is exactly RS256, ES256, PS256")
	} else {
		nd.Cover("explicit")
		nd.Assert(len(out) == n, "explicit allow-list keeps its length")
		for i := 0; i < n && i < len(out); i++ {
			nd.Assert(string(out[i]) == in[i], "explicit allow-list is passed through unchanged")
		}
	}
}
