package crypto

// C12 — AES sealing (codes, opaque tokens): every sealed string decrypts back to its plaintext under the
// same key; short or undecodable input is an error, never a panic. The real bodies of EncryptAES /
// EncryptBytesAES / DecryptAES / DecryptBytesAES are executed on byte vectors; the block cipher is an
// uninterpreted keystream function inside the CFB construction (c[i] = p[i] xor ks(key, iv, c[0..i))).

import (
	nd "github.com/zitadel/oidc/v3/internal/verifnd"
)

func verifC12Key() string {
	sizes := []int{32, 16, 24, 5}
	return nd.Bytes("key", sizes[nd.Choice("key.size", len(sizes))])
}

func VerifC12SealRoundTrip() {
	key := verifC12Key()
	n := nd.Choice("plain.len", nd.Param("maxplain", 4)+1)
	plain := nd.Bytes("plain", n)
	sealed, err := EncryptAES(plain, key)
	if len(key) != 16 && len(key) != 24 && len(key) != 32 {
		nd.Cover("seal-bad-key")
		nd.Assert(err != nil, "a key of an unsupported size is refused")
		return
	}
	if err != nil {
		nd.Cover("seal-rand-fails")
		return
	}
	nd.Cover("sealed")
	got, err := DecryptAES(sealed, key)
	nd.Assert(err == nil, "a sealed string decrypts under the same key")
	nd.Assert(got == plain, "decrypting a sealed string gives back the plaintext")
}

// the raw layer: IV || ciphertext
func VerifC12SealBytes() {
	key := nd.Bytes("key", 32)
	n := nd.Choice("plain.len", nd.Param("maxplain", 4)+1)
	plain := nd.Bytes("plain", n)
	ct, err := EncryptBytesAES([]byte(plain), key)
	if err != nil {
		nd.Cover("seal-rand-fails")
		return
	}
	nd.Cover("sealed")
	nd.Assert(len(ct) == 16+n, "the sealed bytes are one IV block plus the plaintext length")
	pt, err := DecryptBytesAES(ct, key)
	nd.Assert(err == nil && string(pt) == plain, "decrypting the sealed bytes gives back the plaintext")
}

// arbitrary (attacker-chosen) input of every length around the block size: an error or a value, never a panic
func VerifC12Unseal() {
	key := verifC12Key()
	n := nd.Choice("ct.len", nd.Param("maxct", 18)+1)
	ct := nd.Bytes("ct", n)
	pt, err := DecryptBytesAES([]byte(ct), key)
	if err != nil {
		nd.Cover("unseal-refused")
		nd.Assert(n < 16 || (len(key) != 16 && len(key) != 24 && len(key) != 32), "only input shorter than one block (or a bad key) is refused")
		return
	}
	nd.Cover("unseal-value")
	nd.Assert(n >= 16 && len(pt) == n-16, "input of at least one block decrypts to its length minus the IV block")
}
