package oidc

// C12 — claims codec: tolerant decoders answer exactly what the document contains, or an error / the zero
// value, never a panic. Each decoder is run on a well-formed JSON document of arbitrary shape
// (verifnd.JSONDoc) and compared with a reference reading of the same document.

import (
	"encoding/json"
	"strings"
	"time"

	nd "github.com/zitadel/oidc/v3/internal/verifnd"
)

// allStrings: every element of a decoded array is a string
func verifC12Strings(xs []any) ([]string, bool) {
	out := make([]string, 0, len(xs))
	for _, x := range xs {
		s, ok := x.(string)
		if !ok {
			return nil, false
		}
		out = append(out, s)
	}
	return out, true
}

func VerifC12Audience() {
	doc := nd.JSONDoc("doc")
	var a Audience
	err := a.UnmarshalJSON(doc)
	var ref any
	if json.Unmarshal(doc, &ref) != nil {
		nd.Assume(false)
	}
	switch r := ref.(type) {
	case string:
		nd.Cover("aud-string")
		nd.Assert(err == nil && len(a) == 1 && a[0] == r, "audience given as a string decodes to that one element")
	case []any:
		if want, ok := verifC12Strings(r); ok {
			nd.Cover("aud-array")
			nd.Assert(err == nil && nd.EqStrs(a, want), "audience given as an array of strings decodes to those elements in order")
		} else {
			nd.Cover("aud-array-nonstring")
			nd.Assert(err != nil || len(a) == 0, "an audience array with a non-string element is answered with an error or the zero value")
		}
	default:
		nd.Cover("aud-other")
		nd.Assert(err != nil || len(a) == 0, "any other form of audience is answered with an error or the zero value")
	}
}

// concrete documents on which the real time.Parse / encoding/json semantics apply
var verifC12TimeDocs = []string{`"2021-07-21T13:46:38Z"`, `"2006-01-02T15:04:05+07:00"`, `"0001-01-01T00:00:00Z"`, `"yesterday"`, `"2021-07-21 13:46:38"`,
	`1700000000`, `-1`, `0`, `null`, `true`, `[1700000000]`, `{"seconds":1}`, `""`}

func VerifC12Time() {
	doc := nd.JSONDoc("doc")
	if nd.Choice("doc.mode", 2) == 1 {
		doc = []byte(verifC12TimeDocs[nd.Choice("doc.pool", len(verifC12TimeDocs))])
	}
	var ts Time
	err := ts.UnmarshalJSON(doc)
	var ref any
	if json.Unmarshal(doc, &ref) != nil {
		nd.Assume(false)
	}
	switch r := ref.(type) {
	case float64:
		nd.Cover("time-number")
		nd.Assert(err == nil && int64(ts) == int64(r), "a time given as a number decodes to that number of seconds")
	case string:
		tt, perr := time.Parse(time.RFC3339, r)
		if perr == nil {
			nd.Cover("time-rfc3339")
			nd.Assert(err == nil && ts == FromTime(tt), "a time given as an RFC 3339 string decodes to that instant")
		} else {
			nd.Cover("time-badstring")
			nd.Assert(err != nil, "a string that is not RFC 3339 is answered with an error")
		}
	case nil:
		nd.Cover("time-null")
		nd.Assert(err == nil && ts == 0, "null decodes to the zero time")
	default:
		nd.Cover("time-other")
		nd.Assert(err != nil, "any other form of time is answered with an error")
	}
}

func VerifC12SpaceDelimited() {
	doc := nd.JSONDoc("doc")
	var s SpaceDelimitedArray
	err := s.UnmarshalJSON(doc)
	var ref any
	if json.Unmarshal(doc, &ref) != nil {
		nd.Assume(false)
	}
	switch r := ref.(type) {
	case string:
		nd.Cover("sda-string")
		nd.Assert(err == nil && strings.Join(s, " ") == r, "a space-delimited string decodes to its parts (joining them gives the string back)")
	case nil:
		nd.Cover("sda-null")
		nd.Assert(err == nil, "null is tolerated")
	default:
		nd.Cover("sda-other")
		nd.Assert(err != nil, "any other form is answered with an error")
	}
}

// Bool looks at the raw bytes: true only for the JSON literal true or the JSON string "true".
func VerifC12Bool() {
	n := nd.Choice("doc.len", nd.Param("maxboollen", 6)+1)
	data := nd.Bytes("doc", n)
	var b Bool
	err := b.UnmarshalJSON([]byte(data))
	nd.Assert(err == nil, "the boolean decoder never fails")
	want := data == "true" || data == `"true"`
	if want {
		nd.Cover("bool-true")
	} else {
		nd.Cover("bool-not-true")
	}
	nd.Assert(bool(b) == want, "email_verified is true exactly for the JSON literal true and the JSON string \"true\"")
}
