package op

// C06 — every token the OP issues is well-formed and passes the library's own verifiers.
// A well-formed request of every flow is run against a storage state that lets it succeed, with the
// token-relevant configuration symbolic (subject, audience, scopes, nonce, auth time, client skew and
// lifetime, access-token type, userinfo-assertion flag, signing algorithm / key type). The tokens in the
// response are then handed to the library's own consumers: rp.VerifyTokens / rp.VerifyIDToken against the
// provider's published key set, op.VerifyAccessToken, and the opaque-token reader.

import (
	"context"
	"net/http"
	"net/url"
	"strings"
	"time"

	nd "github.com/zitadel/oidc/v3/internal/verifnd"
	"github.com/zitadel/oidc/v3/pkg/client/rp"
	"github.com/zitadel/oidc/v3/pkg/oidc"
)

var verifC06Algs = []string{"RS256", "ES384", "EdDSA", "PS512", "ES256", "RS384", "RS512", "ES512", "PS256", "PS384"}

func verifC06HashKind(alg string) string {
	switch alg {
	case "RS256", "ES256", "PS256":
		return "sha256"
	case "RS384", "ES384", "PS384":
		return "sha384"
	}
	return "sha512"
}

type verifC06 struct {
	st       *verifStorage
	storage  Storage
	p        *Provider
	cA       *verifClient
	form     url.Values
	alg      string
	subject  string
	nonce    string
	audience []string
	scopes   []string
	authTime int64
	skewS    int64
	lifeS    int64
	email    bool // scope email granted
	profile  bool
	offline  bool
	custom   string
	isAuthReq bool
	flow     string
	code     string
}

func verifC06Env() *verifC06 {
	h := &verifC06{st: &verifStorage{}}
	h.skewS = nd.Int("cA.skew.s", 0, 600)
	h.lifeS = nd.Int("cA.idlifetime.s", 5, 86400)
	cA := &verifClient{id: "clientA", secret: "s3cret", appType: ApplicationTypeWeb, authMethod: oidc.AuthMethodBasic,
		grantTypes:    []oidc.GrantType{oidc.GrantTypeCode, oidc.GrantTypeImplicit, oidc.GrantTypeRefreshToken, oidc.GrantTypeClientCredentials, oidc.GrantTypeTokenExchange, oidc.GrantTypeDeviceCode},
		responseTypes: []oidc.ResponseType{oidc.ResponseTypeCode, oidc.ResponseTypeIDToken, oidc.ResponseTypeIDTokenOnly},
		idLifetime:    time.Duration(h.lifeS) * time.Second, skew: time.Duration(h.skewS) * time.Second, keyID: "cA-key",
		redirectURIs: []string{"https://rp.example.com/cb"}}
	// quick tier: a covering list of (algorithm, token type, scope set, audience size) instead of the cross product
	scn := [][4]int{{0, 0, 0, 0}, {1, 1, 5, 1}, {2, 0, 10, 1}, {0, 1, 7, 0}, {1, 0, 7, 1}, {2, 1, 0, 0}}
	full := nd.Param("cross", 0) == 1
	var pick [4]int
	if full {
		pick = [4]int{nd.Choice("sign.alg", nd.Param("nalgs", 4)), nd.Choice("cA.tokentype", 2), nd.Choice("R.scopeset", 16), nd.Choice("R.naud", nd.Param("maxaud", 2)+1)}
	} else {
		pick = scn[nd.Choice("scenario", len(scn))]
		if nd.Param("algsweep", 0) == 1 {
			pick[0] = nd.Choice("sign.alg", len(verifC06Algs)) // thorough: every signing algorithm with every scenario
		}
	}
	if pick[1] == 1 {
		cA.tokenType = AccessTokenTypeJWT
	}
	cA.userinfoAssertion = nd.Bool("cA.userinfoassertion")
	if nd.Choice("cA.idrestrict", 2) == 1 {
		cA.idScopeDrop = oidc.ScopeProfile // the client limits the scopes asserted into ID tokens; access tokens stay unrestricted
	}
	h.cA = cA
	h.st.clients = []*verifClient{cA}
	verifGiveKeys(h.st)
	h.alg = verifC06Algs[pick[0]]
	verifSetupSigning(h.st, h.alg)
	h.st.rotating = nd.Choice("keys.rotating", 2) == 1 // key rotation: the previous public key is still published
	h.st.teDefaults = true
	h.storage = &verifStorageFull{h.st}
	h.p = verifProvider(h.storage)
	h.p.config.GrantTypeRefreshToken = true
	h.form = url.Values{}

	// what the underlying request carries
	h.subject = nd.Str("R.sub")
	nd.Assume(h.subject != "")
	h.nonce = nd.Str("R.nonce")
	h.authTime = nd.Int("R.authtime", 1<<30, 1<<32)
	for i, n := 0, pick[3]; i < n; i++ {
		h.audience = append(h.audience, nd.Str("R.aud"))
	}
	h.scopes = []string{oidc.ScopeOpenID}
	// scope sets: bit 0 email, bit 1 profile, bit 2 offline_access, bit 3 a custom scope (quick: four representative sets)
	set := pick[2]
	if set&1 != 0 {
		h.email = true
		h.scopes = append(h.scopes, oidc.ScopeEmail)
	}
	if set&2 != 0 {
		h.profile = true
		h.scopes = append(h.scopes, oidc.ScopeProfile)
	}
	if set&4 != 0 {
		h.offline = true
		h.scopes = append(h.scopes, oidc.ScopeOfflineAccess)
	}
	if set&8 != 0 {
		// a custom scope: "x-" plus two arbitrary printable ASCII bytes other than space (what the space-delimited
		// JSON wire format of the response can carry unchanged)
		tail := nd.Bytes("R.scope.custom", 2)
		for i := 0; i < len(tail); i++ {
			nd.Assume(tail[i] > 0x20 && tail[i] < 0x7f && tail[i] != '"' && tail[i] != '\\' && tail[i] != '<' && tail[i] != '>' && tail[i] != '&')
		}
		h.custom = "x-" + tail
		h.scopes = append(h.scopes, h.custom)
	}
	return h
}

func (h *verifC06) creds() *verifCreds { return &verifCreds{mode: 1, id: h.cA.id, secret: h.cA.secret} }

// tokenRequest: a well-formed request of one of the token-endpoint flows
func (h *verifC06) tokenRequest(flow string) *http.Request {
	h.flow = flow
	cr := h.creds()
	at := time.Unix(h.authTime, 0)
	switch flow {
	case "code":
		h.isAuthReq = true
		h.st.authReq = &verifAuthReq{id: "authreq-1", clientID: "clientA", subject: h.subject, nonce: h.nonce, redirectURI: "https://rp.example.com/cb",
			scopes: h.scopes, audience: h.audience, responseType: oidc.ResponseTypeCode, done: true, authTime: at, amr: []string{"pwd"}, acr: "acr-1"}
		h.code = nd.Str("code0")
		nd.Assume(h.code != "")
		h.st.code = h.code
		h.form.Set("grant_type", string(oidc.GrantTypeCode))
		h.form.Set("code", h.code)
		h.form.Set("redirect_uri", "https://rp.example.com/cb")
	case "refresh":
		h.st.refreshReq = &verifRefreshReq{clientID: "clientA", subject: h.subject, scopes: h.scopes, audience: h.audience, authTime: at, amr: []string{"pwd"}}
		h.st.refreshTok = "rt-0"
		h.form.Set("grant_type", string(oidc.GrantTypeRefreshToken))
		h.form.Set("refresh_token", "rt-0")
	case "device":
		h.st.devState = &DeviceAuthorizationState{ClientID: "clientA", Done: true, Subject: h.subject, Scopes: h.scopes, Audience: h.audience, AuthTime: at, Expires: time.Unix(1<<33, 0)}
		h.st.devClient, h.st.devCode = "clientA", "dev-0"
		h.form.Set("grant_type", string(oidc.GrantTypeDeviceCode))
		h.form.Set("device_code", "dev-0")
	case "client_credentials":
		h.audience = nil // the client-credentials request of the storage names the client itself as audience
		h.form.Set("grant_type", string(oidc.GrantTypeClientCredentials))
		h.form.Set("scope", strings.Join(h.scopes, " "))
	}
	return verifTokenRequest(h.form, cr, false)
}

func (h *verifC06) keySet() oidc.KeySet { return &OpenIDKeySet{h.storage} }

// checkIDToken: the ID token passes rp verification against the published key set and carries what the request had
func (h *verifC06) checkIDToken(idToken, accessToken string, withNonce bool) {
	nd.Cover("id-token-issued")
	opts := []rp.VerifierOption{rp.WithSupportedSigningAlgorithms(h.alg), rp.WithIssuedAtOffset(time.Second)}
	if withNonce {
		opts = append(opts, rp.WithNonce(func(context.Context) string { return h.nonce }))
	}
	v := rp.NewIDTokenVerifier(verifIssuer, "clientA", h.keySet(), opts...)
	var claims *oidc.IDTokenClaims
	var err error
	if accessToken != "" {
		claims, err = rp.VerifyTokens[*oidc.IDTokenClaims](context.Background(), accessToken, idToken, v)
	} else {
		claims, err = rp.VerifyIDToken[*oidc.IDTokenClaims](context.Background(), idToken, v)
	}
	// the round trip happens within one second (a later verification may rightly find the token expired)
	nd.Assume(nd.ClockLast()-nd.ClockFirst() <= 1000000000)
	nd.Assert(err == nil, "the issued ID token passes rp verification against the provider's published key set")
	if err != nil {
		return
	}
	nd.Assert(claims.Issuer == verifIssuer, "ID token iss is the request's issuer")
	nd.Assert(nd.Contains(claims.Audience, "clientA"), "ID token aud contains the client")
	for _, a := range h.audience {
		nd.Assert(nd.Contains(claims.Audience, a), "ID token aud keeps the request's audience")
	}
	nd.Assert(claims.AuthorizedParty == "clientA", "ID token azp is the client")
	if h.flow != "client_credentials" {
		nd.Assert(claims.Subject == h.subject, "ID token sub comes from the request")
	}
	if withNonce {
		nd.Assert(claims.Nonce == h.nonce, "ID token nonce comes from the request")
	}
	first, last := nd.ClockFirst()/1000000000, nd.ClockLast()/1000000000
	iat, exp := int64(claims.IssuedAt), int64(claims.Expiration)
	nd.Assert(iat <= last && iat >= first-h.skewS-1, "ID token iat is the issuing instant (minus the client's skew)")
	nd.Assert(exp >= first+h.lifeS-1 && exp <= last+h.lifeS+h.skewS+1, "ID token exp is the issuing instant plus the configured lifetime (plus skew)")
	if h.flow == "code" || h.flow == "refresh" || h.flow == "device" || h.flow == "implicit" {
		authT := int64(claims.AuthTime)
		nd.Assert(authT <= h.authTime && authT >= h.authTime-h.skewS, "ID token auth_time comes from the request (minus at most the client's skew)")
	}
	if h.isAuthReq {
		nd.Assert(len(claims.AuthenticationMethodsReferences) == 1 && claims.AuthenticationMethodsReferences[0] == "pwd", "ID token amr comes from the request")
	}
	if accessToken != "" {
		nd.Cover("id-token-with-at_hash")
		nd.Assert(claims.AccessTokenHash == nd.Hash(verifC06HashKind(h.alg), accessToken, true), "at_hash binds the ID token to the access token of the same response (left half of the hash of the signing algorithm)")
	} else {
		nd.Assert(claims.AccessTokenHash == "", "no at_hash without an access token")
	}
	if h.flow == "code" {
		nd.Assert(claims.CodeHash == nd.Hash(verifC06HashKind(h.alg), h.code, true), "c_hash binds the ID token to the code")
	} else {
		nd.Assert(claims.CodeHash == "", "no c_hash without a code")
	}
	// user claims only for granted scopes, and only when asserted into the ID token
	asserted := accessToken == "" || h.cA.userinfoAssertion
	if h.flow != "client_credentials" {
		nd.Assert((claims.Email != "") == (h.email && asserted), "the email claim appears exactly when the email scope is granted and user claims are asserted into the ID token")
		nd.Assert((claims.Name != "") == (h.profile && asserted && h.cA.idScopeDrop != oidc.ScopeProfile), "the profile claims appear exactly when the profile scope is granted and user claims are asserted into the ID token")
	}
}

// checkAccessToken: JWT access tokens pass op.VerifyAccessToken, opaque ones decrypt to id:subject
func (h *verifC06) checkAccessToken(accessToken string, subject string) {
	nd.Assert(len(h.st.created) == 1, "one access token was created by the storage")
	if len(h.st.created) != 1 {
		return
	}
	cr := h.st.created[0]
	// storage contract: a freshly created access token has not yet expired
	nd.Assume(cr.exp.Unix() > nd.ClockLast()/1000000000+2)
	if h.cA.tokenType == AccessTokenTypeJWT {
		nd.Cover("jwt-access-token")
		v := NewAccessTokenVerifier(verifIssuer, h.keySet(), WithSupportedAccessTokenSigningAlgorithms(h.alg))
		claims, err := VerifyAccessToken[*oidc.AccessTokenClaims](context.Background(), accessToken, v)
		nd.Assume(nd.ClockLast()-nd.ClockFirst() <= 1000000000)
		nd.Assert(err == nil, "the issued JWT access token passes op.VerifyAccessToken against the provider's published key set")
		if err != nil {
			return
		}
		nd.Assert(claims.Issuer == verifIssuer, "JWT access token iss is the request's issuer")
		nd.Assert(claims.Subject == subject, "JWT access token sub comes from the request")
		nd.Assert(len(claims.Audience) > 0, "JWT access token has an audience")
		for _, a := range h.audience {
			nd.Assert(nd.Contains(claims.Audience, a), "JWT access token aud keeps the request's audience")
		}
		nd.Assert(claims.JWTID == cr.id, "JWT access token jti is the stored token id")
		nd.Assert(claims.Expiration.AsTime().Equal(cr.exp), "JWT access token exp is the stored expiry")
		nd.Assert(claims.ClientID == "clientA", "JWT access token client_id is the client")
		last := nd.ClockLast() / 1000000000
		nd.Assert(int64(claims.IssuedAt) <= last, "JWT access token iat is not in the future")
		return
	}
	nd.Cover("opaque-access-token")
	plain, err := h.p.crypto.Decrypt(accessToken)
	nd.Assert(err == nil && plain == cr.id+":"+subject, "the opaque access token decrypts (with the provider key) to the stored token id and the subject")
}

func (h *verifC06) checkTokenResponse(rec *verifRec) {
	nd.Assert(rec.status == 200, "the well-formed request succeeds (harness sanity)")
	resp, ok := rec.tokenResponse()
	nd.Assert(ok, "the response is a token response document")
	if !ok || rec.status != 200 {
		return
	}
	nd.Cover("tokens-issued")
	subject := h.subject
	if h.flow == "client_credentials" {
		subject = "clientA"
	}
	nd.Assert(resp.AccessToken != "", "an access token is issued")
	h.checkAccessToken(resp.AccessToken, subject)
	if h.flow != "client_credentials" {
		nd.Assert(resp.IDToken != "", "an ID token is issued for an openid request")
	}
	if resp.IDToken != "" {
		h.checkIDToken(resp.IDToken, resp.AccessToken, h.flow == "code")
	}
	if h.flow != "client_credentials" {
		nd.Assert(nd.EqStrs(resp.Scope, h.scopes), "scope in the response is the granted scope")
	}
	cr := h.st.created[0]
	if cr.withRefresh {
		nd.Cover("refresh-token-issued")
		nd.Assert(resp.RefreshToken == cr.newRefresh, "the refresh token in the response is the one the storage created")
	} else {
		nd.Assert(resp.RefreshToken == "", "no refresh token unless the storage created one")
	}
	nd.Assert(resp.TokenType == oidc.BearerToken, "token_type is Bearer")
}

func verifC06Token(server bool) {
	h := verifC06Env()
	flows := []string{"code", "refresh", "device", "client_credentials"}
	r := h.tokenRequest(flows[nd.Choice("flow", len(flows))])
	rec := newVerifRec()
	if server {
		verifWebServer(h.p).tokensHandler(rec, r)
	} else {
		Exchange(rec, r, h.p)
	}
	h.checkTokenResponse(rec)
}

func VerifC06TokenLegacy() { verifC06Token(false) }
func VerifC06TokenServer() { verifC06Token(true) }

// ---------------- implicit flow: tokens in the authorization response ----------------

func VerifC06Implicit() {
	h := verifC06Env()
	h.flow = "implicit"
	h.isAuthReq = true
	rt := oidc.ResponseTypeIDToken
	if nd.Choice("A.idtokenonly", 2) == 1 {
		rt = oidc.ResponseTypeIDTokenOnly
	}
	state := nd.Str("A.state")
	h.st.authReq = &verifAuthReq{id: "authreq-1", clientID: "clientA", subject: h.subject, nonce: h.nonce, state: state, redirectURI: "https://rp.example.com/cb",
		scopes: h.scopes, audience: h.audience, responseType: rt, done: true, authTime: time.Unix(h.authTime, 0), amr: []string{"pwd"}}
	form := url.Values{}
	form.Set("id", "authreq-1")
	rec := newVerifRec()
	AuthorizeCallback(rec, verifWithIssuer(nd.Request("GET", "/authorize/callback", form, "", "", false, false)), h.p)
	nd.Assert(rec.status == 302, "the completed implicit request is answered with a redirect (harness sanity)")
	if rec.status != 302 {
		return
	}
	u, err := url.Parse(rec.hdr.Get("Location"))
	nd.Assert(err == nil, "Location parses")
	if err != nil {
		return
	}
	vals, err := url.ParseQuery(u.EscapedFragment()) // the fragment as the user agent sees it
	nd.Assert(err == nil, "the fragment is a parameter list")
	if err != nil {
		return
	}
	nd.Cover("tokens-issued")
	idToken, accessToken := vals.Get("id_token"), vals.Get("access_token")
	nd.Assert(idToken != "", "an ID token is issued")
	if rt == oidc.ResponseTypeIDTokenOnly {
		nd.Assert(accessToken == "", "response_type id_token carries no access token")
	} else {
		nd.Assert(accessToken != "", "response_type id_token token carries an access token")
		h.checkAccessToken(accessToken, h.subject)
	}
	if idToken != "" {
		h.checkIDToken(idToken, accessToken, true)
	}
	nd.Assert(vals.Get("state") == state, "state is returned")
	nd.Assert(vals.Get("refresh_token") == "", "the implicit flow never returns a refresh token")
}
