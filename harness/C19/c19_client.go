package client

// C19 (client side) — client.Discover returns a document only if its issuer is the one asked for.

import (
	"context"
	"encoding/json"
	"net/http"

	nd "github.com/zitadel/oidc/v3/internal/verifnd"
	"github.com/zitadel/oidc/v3/pkg/oidc"
)

// concrete documents a faulty provider may answer with
var verifC19Bodies = []string{"null", "[]", "{}", "{\"issuer\":1}", "\"x\"", "{\"issuer\":\"https://op.example.com\"}", "{\"issuer\":null}", ""}

var verifC19AskPool = []string{"https://op.example.com", "https://op.example.com/", "https://op.example.com/tenant", "https://op.example.com/tenant/"}

func VerifC19Discover() {
	var asked, served string
	if nd.Choice("issuers.mode", 2) == 1 {
		// concrete pool: issuers differing only by a trailing slash, by path, or not at all
		asked = verifC19AskPool[nd.Choice("asked.pool", len(verifC19AskPool))]
		served = verifC19AskPool[nd.Choice("served.pool", len(verifC19AskPool))]
	} else {
		asked, served = nd.Str("asked"), nd.Str("served")
	}
	status := int(nd.Int("status", 100, 599))
	fail := nd.Bool("transport.fail")
	kind := nd.Choice("body.kind", 3)
	garbage := kind != 0
	raw := ""
	if kind == 1 {
		raw = nd.Str("body.raw")
	} else if kind == 2 {
		raw = verifC19Bodies[nd.Choice("body.pool", len(verifC19Bodies))]
	}
	hc, rt := nd.NewHTTPClient(func(k int, r *http.Request) (int, string, bool) {
		if garbage {
			return status, raw, fail
		}
		b, err := json.Marshal(&oidc.DiscoveryConfiguration{Issuer: served, TokenEndpoint: served + "/token"})
		if err != nil {
			nd.Assume(false)
		}
		return status, string(b), fail
	})
	doc, err := Discover(context.Background(), asked, hc)
	if err == nil {
		nd.Cover("discovered")
		nd.Assert(doc != nil, "a document is returned with a nil error")
		if doc == nil {
			return
		}
		nd.Assert(doc.Issuer == asked, "the document's issuer is exactly the issuer asked for")
		nd.Assert(!fail && status == 200, "only a 200 answer of a working transport yields a document")
		nd.Assert(len(rt.Calls) == 1, "exactly one request")
		if !garbage {
			nd.Cover("discovered-marshalled")
			nd.Assert(served == asked, "the provider's document names the issuer asked for")
		}
	} else {
		nd.Cover("discovery-refused")
		nd.Assert(doc == nil, "no document with an error")
		if !garbage && !fail && status == 200 && served == asked && len(rt.Calls) == 1 {
			nd.Assert(false, "a truthful document for the issuer asked for is accepted")
		}
	}
}
