package op

// C19 — the discovery document is truthful: issuer, endpoint URLs vs. routes actually registered,
// advertised grant types vs. what the token endpoint dispatches, issuer validation.

import (
	"context"
	"log/slog"
	"net/url"
	"strings"

	"github.com/go-chi/chi/v5"
	"github.com/zitadel/schema"

	nd "github.com/zitadel/oidc/v3/internal/verifnd"
	"github.com/zitadel/oidc/v3/pkg/oidc"
)

var verifC19Grants = []oidc.GrantType{oidc.GrantTypeCode, oidc.GrantTypeRefreshToken, oidc.GrantTypeClientCredentials,
	oidc.GrantTypeTokenExchange, oidc.GrantTypeBearer, oidc.GrantTypeDeviceCode}

// ---------------- grant types ----------------

type verifC19 struct {
	st      *verifStorage
	storage Storage
	p       *Provider
	grant   oidc.GrantType
	form    url.Values
	cr      *verifCreds
}

func verifC19GrantEnv() *verifC19 {
	h := &verifC19{st: &verifStorage{}}
	c := &verifClient{id: "clientA", secret: "s3cret", authMethod: oidc.AuthMethodBasic, appType: ApplicationTypeWeb,
		grantTypes: verifC19Grants, responseTypes: []oidc.ResponseType{oidc.ResponseTypeCode}, keyID: "cA-key"}
	h.st.clients = []*verifClient{c}
	verifGiveKeys(h.st)
	verifSetupSigning(h.st, "RS256")
	h.storage, _ = verifPickStorage(h.st)
	h.p = verifProvider(h.storage)
	h.grant = verifC19Grants[nd.Choice("grant", len(verifC19Grants))]
	h.cr = &verifCreds{mode: 1, id: "clientA", secret: "s3cret"}
	h.form = url.Values{}
	h.form.Set("grant_type", string(h.grant))
	// every parameter a grant requires is present (arbitrary non-empty values)
	for _, k := range []string{"code", "redirect_uri", "refresh_token", "assertion", "subject_token", "device_code"} {
		v := nd.Str("req." + k)
		nd.Assume(v != "")
		h.form.Set(k, v)
	}
	h.form.Set("subject_token_type", string(oidc.AccessTokenType))
	return h
}

func (h *verifC19) checkGrant(rec *verifRec) {
	advertised := false
	for _, g := range GrantTypes(h.p) {
		if g == h.grant {
			advertised = true
		}
	}
	e, _ := rec.oauthError()
	unsupported := rec.status != 200 && e == string(oidc.UnsupportedGrantType)
	if advertised {
		nd.Cover("grant-advertised")
		nd.Assert(!unsupported, "an advertised grant type is dispatched by the token endpoint")
	} else {
		nd.Cover("grant-not-advertised")
		nd.Assert(unsupported, "a grant type that is not advertised is answered with unsupported_grant_type")
		nd.Assert(len(h.st.created) == 0, "and yields no token")
	}
}

func VerifC19GrantsLegacy() {
	h := verifC19GrantEnv()
	rec := newVerifRec()
	Exchange(rec, verifTokenRequest(h.form, h.cr, false), h.p)
	h.checkGrant(rec)
}

func VerifC19GrantsServer() {
	h := verifC19GrantEnv()
	ws := verifWebServer(h.p)
	rec := newVerifRec()
	ws.tokensHandler(rec, verifTokenRequest(h.form, h.cr, false))
	h.checkGrant(rec)
}

// ---------------- endpoints ----------------

var verifC19Issuers = []string{"https://op.example.com", "https://op.example.com/", "https://op.example.com/tenant/a"}

// verifC19Endpoints: the default endpoints with one of them replaced by a custom path (with / without
// leading slash), an absolute URL override, or nil.
func verifC19Endpoints(shapes int) (*Endpoints, int, int) {
	ep := *DefaultEndpoints
	which, shape := nd.Choice("ep.which", 8), nd.Choice("ep.shape", shapes)
	var e *Endpoint
	switch shape {
	case 0:
		return &ep, which, shape
	case 1:
		e = NewEndpoint("/custom/path")
	case 2:
		e = NewEndpoint("custom/path")
	case 3:
		e = NewEndpointWithURL("/custom/path", "https://other.example.com/elsewhere")
	default:
		e = nil
	}
	switch which {
	case 0:
		ep.Authorization = e
	case 1:
		ep.Token = e
	case 2:
		ep.Introspection = e
	case 3:
		ep.Userinfo = e
	case 4:
		ep.Revocation = e
	case 5:
		ep.EndSession = e
	case 6:
		ep.JwksURI = e
	default:
		ep.DeviceAuthorization = e
	}
	return &ep, which, shape
}

type verifC19Adv struct {
	name string
	url  string
	e    *Endpoint
}

func verifC19Check(issuer string, doc *oidc.DiscoveryConfiguration, ep *Endpoints, routed func(path string) bool) {
	nd.Assert(doc.Issuer == issuer, "the document's issuer is the request's issuer")
	base := strings.TrimSuffix(issuer, "/")
	for _, a := range []verifC19Adv{
		{"authorization_endpoint", doc.AuthorizationEndpoint, ep.Authorization}, {"token_endpoint", doc.TokenEndpoint, ep.Token},
		{"introspection_endpoint", doc.IntrospectionEndpoint, ep.Introspection}, {"userinfo_endpoint", doc.UserinfoEndpoint, ep.Userinfo},
		{"revocation_endpoint", doc.RevocationEndpoint, ep.Revocation}, {"end_session_endpoint", doc.EndSessionEndpoint, ep.EndSession},
		{"jwks_uri", doc.JwksURI, ep.JwksURI}, {"device_authorization_endpoint", doc.DeviceAuthorizationEndpoint, ep.DeviceAuthorization}} {
		switch {
		case a.e == nil:
			nd.Cover("endpoint-absent")
			nd.Assert(a.url == "", a.name+": an endpoint that is not configured is not advertised")
		case a.e.url != "":
			nd.Cover("endpoint-absolute-override")
			nd.Assert(a.url == a.e.url, a.name+": an absolute override is advertised as given")
			nd.Assert(routed(a.e.Relative()), a.name+": the route of an overridden endpoint is still served")
		default:
			nd.Cover("endpoint-relative")
			nd.Assert(strings.HasPrefix(a.url, base+"/"), a.name+": advertised on the issuer")
			path := strings.TrimPrefix(a.url, base)
			nd.Assert(path == a.e.Relative(), a.name+": advertised URL is the issuer-relative address of the endpoint")
			nd.Assert(routed(path), a.name+": the advertised path is a route the handler serves")
		}
	}
}

func VerifC19EndpointsProvider() {
	st := &verifStorage{}
	verifSetupSigning(st, "RS256")
	p := verifProvider(st)
	ep, _, _ := verifC19Endpoints(4) // a Provider cannot be built with a nil endpoint (Endpoint.Validate)
	p.endpoints = ep
	issuer := verifC19Issuers[nd.Choice("issuer", len(verifC19Issuers))]
	router := CreateRouter(p)
	doc := CreateDiscoveryConfig(ContextWithIssuer(context.Background(), issuer), p, st)
	verifC19Check(issuer, doc, ep, func(path string) bool { return router.Match(chi.NewRouteContext(), "GET", path) })
	nd.Assert(router.Match(chi.NewRouteContext(), "GET", oidc.DiscoveryEndpoint), "the discovery document itself is served")
}

func VerifC19EndpointsServer() {
	st := &verifStorage{}
	verifSetupSigning(st, "RS256")
	p := verifProvider(st)
	ep, _, _ := verifC19Endpoints(5)
	issuer := verifC19Issuers[nd.Choice("issuer", len(verifC19Issuers))]
	dec := schema.NewDecoder()
	srv := NewLegacyServer(p, *ep)
	ws := &webServer{router: chi.NewRouter(), server: srv, endpoints: *ep, decoder: dec, logger: slog.Default()}
	ws.createRouter()
	doc := createDiscoveryConfigV2(ContextWithIssuer(context.Background(), issuer), p, st, &srv.endpoints)
	verifC19Check(issuer, doc, ep, func(path string) bool { return ws.router.Match(chi.NewRouteContext(), "GET", path) })
	nd.Assert(ws.router.Match(chi.NewRouteContext(), "GET", oidc.DiscoveryEndpoint), "the discovery document itself is served")
}

// ---------------- capability flags ----------------

func VerifC19Flags() {
	st := &verifStorage{}
	verifSetupSigning(st, "RS256")
	storage, full := verifPickStorage(st)
	p := verifProvider(storage)
	doc := CreateDiscoveryConfig(ContextWithIssuer(context.Background(), verifIssuer), p, st)
	has := func(g oidc.GrantType) bool {
		for _, x := range doc.GrantTypesSupported {
			if x == g {
				return true
			}
		}
		return false
	}
	nd.Cover("flags")
	nd.Assert(has(oidc.GrantTypeCode) && has(oidc.GrantTypeBearer), "code and jwt-bearer are always advertised")
	nd.Assert(has(oidc.GrantTypeRefreshToken) == p.config.GrantTypeRefreshToken, "refresh_token advertised iff enabled")
	nd.Assert(has(oidc.GrantTypeClientCredentials) == full && has(oidc.GrantTypeTokenExchange) == full && has(oidc.GrantTypeDeviceCode) == full,
		"client_credentials, token-exchange and device_code advertised iff the storage implements them")
	s256 := false
	for _, m := range doc.CodeChallengeMethodsSupported {
		if m == oidc.CodeChallengeMethodS256 {
			s256 = true
		} else {
			nd.Assert(false, "only S256 may be advertised as PKCE method")
		}
	}
	nd.Assert(s256 == p.config.CodeMethodS256, "S256 advertised iff enabled")
	nd.Assert(doc.RequestParameterSupported == p.config.RequestObjectSupported, "request parameter support advertised iff enabled")
	post, pk := false, false
	for _, m := range doc.TokenEndpointAuthMethodsSupported {
		if m == oidc.AuthMethodPost {
			post = true
		}
		if m == oidc.AuthMethodPrivateKeyJWT {
			pk = true
		}
	}
	nd.Assert(post == p.config.AuthMethodPost && pk == p.config.AuthMethodPrivateKeyJWT, "token endpoint auth methods advertised iff enabled")
}

// ---------------- issuer validation ----------------

var verifC19IssuerPool = []string{"", "https://", "https://op.example.com", "http://op.example.com", "https://op.example.com?x=1",
	"https://op.example.com#frag", "op.example.com", "https://op.example.com/path", "ftp://op.example.com", "http://localhost:9998/", "https:///path", "%zz"}

func VerifC19Issuer() {
	insecure := nd.Bool("insecure")
	var issuer string
	if nd.Choice("issuer.mode", 2) == 1 {
		issuer = verifC19IssuerPool[nd.Choice("issuer.pool", len(verifC19IssuerPool))]
	} else {
		issuer = nd.Str("issuer")
	}
	err := ValidateIssuer(issuer, insecure)
	if err != nil {
		nd.Cover("issuer-rejected")
		return
	}
	nd.Cover("issuer-accepted")
	nd.Assert(issuer != "", "an empty issuer is rejected")
	u, perr := url.Parse(issuer)
	nd.Assert(perr == nil, "an unparsable issuer is rejected")
	if perr != nil {
		return
	}
	nd.Assert(u.Host != "", "a host-less issuer is rejected")
	nd.Assert(u.Scheme == "https" || (insecure && u.Scheme == "http"), "https, or http only with the insecure opt-in")
	nd.Assert(u.Fragment == "" && u.RawQuery == "", "an issuer with query or fragment is rejected")
}
