// Package verifnd is the harness API. This is the SYMBOLIC variant: every function is
// intercepted by the engine (gosmt); the bodies are never executed.
package verifnd

import (
	"context"
	"net/http"
	"net/url"
	"time"
	"errors"
	"io"
	"strings"
)

func stub() { panic("verifnd: symbolic stub executed natively") }

// ---- draws ----
func Bool(tag string) bool                { stub(); return false }
func Int(tag string, lo, hi int64) int64  { stub(); return 0 }
func Str(tag string) string               { stub(); return "" }
func Bytes(tag string, n int) string      { stub(); return "" }
func Choice(tag string, n int) int        { stub(); return 0 }

// ---- control ----
func Assume(c bool)               { stub() }
func Assert(c bool, label string) { stub() }
func Cover(label string)          { stub() }
func Note(msg string)             { stub() }

// ---- fork-free boolean connectives for specification code ----
func And(a, b bool) bool           { stub(); return false }
func Or(a, b bool) bool            { stub(); return false }
func Not(a bool) bool              { stub(); return false }
func Implies(a, b bool) bool       { stub(); return false }
func Contains(xs []string, s string) bool { stub(); return false }
func EqStrs(a, b []string) bool    { stub(); return false }
func HasPrefix(s, p string) bool   { stub(); return false }
func IsNil(x any) bool             { stub(); return false }

// ---- clock ----
func Now() time.Time      { stub(); return time.Time{} }
func ClockReads() int     { stub(); return 0 }
func ClockFirst() int64   { stub(); return 0 } // unix ns of the first read (or of a fresh read if none)
func ClockLast() int64    { stub(); return 0 }

// ---- abstract artefacts ----

// Token returns a compact JWS carrying the JSON encoding of claims with the given
// header alg/kid and nsig signatures (1 = ordinary compact token).
func Token(claims any, alg, kid string, nsig int) string { stub(); return "" }

// Hash is the library hash contract: base64url(H_kind(s)[:half?]).
func Hash(kind string, s string, half bool) string { stub(); return "" }

// Ctx returns a context; Ctx(i) for different i are distinct.
func Ctx(i int) context.Context { stub(); return nil }

// Frame on/off: while on, writes to labelled objects are obligation failures (C20).
func FrameOn()                         { stub() }
func FrameOff()                        { stub() }
func Label(x any, label string)        { stub() }

// Param returns a per-tier bound from the harness spec (concrete).
func Param(name string, def int) int { stub(); return def }

// KeyPair returns a signing key of the family of alg and its public half; keys with the same id match.
func KeyPair(id, alg string) (priv any, pub any) { stub(); return nil, nil }

// Request builds an HTTP request. form holds the body form (POST) or the query (GET);
// basicUser/basicPass are the raw (still percent-encoded) Basic credentials; badForm makes ParseForm fail.
func Request(method, target string, form url.Values, basicUser, basicPass string, hasBasic, badForm bool) *http.Request {
	stub()
	return nil
}

// FormAction / FormField read the auto-submitting form_post page: the form's action and a hidden field's value.
func FormAction(body string) (string, bool)            { stub(); return "", false }
func FormField(body string, name string) (string, bool) { stub(); return "", false }

// JSONDoc returns a well-formed JSON document of arbitrary shape (null, bool, integral number below 2^53,
// string, array of such values, empty object); json.Unmarshal of it into `any` yields that value.
func JSONDoc(tag string) []byte { stub(); return nil }

// WithCookie returns r carrying one more cookie; CookieSet reads the last cookie of that name set on w.
func WithCookie(r *http.Request, name, value string) *http.Request { stub(); return r }
func CookieSet(w http.ResponseWriter, name string) (value string, maxAge int, ok bool) {
	stub()
	return "", 0, false
}

// Fingerprint renders the value x points to, one level deep (nested pointers by address): equal before and
// after a call iff no field was written. Symbolically a constant: there the write frame decides.
func Fingerprint(x any) string { stub(); return "" }

// JWKS is the body a JWKS endpoint serves for keys (values of jose.JSONWebKey, passed as a slice); an entry of
// a key type go-jose does not know is spliced in at position unknownAt (-1: none).
func JWKS(keys any, unknownAt int) string { stub(); return "" }

// Settle lets every other goroutine run until it blocks (natively a short sleep; symbolically a scheduling point).
func Settle() { stub() }

// Yield is an explicit scheduling point (concurrency mode); natively runtime.Gosched.
func Yield() { stub() }

// Debugf records a diagnostic line in native runs; ignored symbolically.
func Debugf(format string, args ...any) { stub() }

// ---- scripted HTTP transport (plain Go in both variants: executed symbolically and natively) ----

// RT is an http.RoundTripper whose k-th answer is decided by the harness (Respond draws what it
// wants from this package); every request is journalled.
type RT struct {
	Respond func(k int, r *http.Request) (status int, body string, fail bool)
	Calls   []*http.Request
}

func (t *RT) RoundTrip(r *http.Request) (*http.Response, error) {
	k := len(t.Calls)
	t.Calls = append(t.Calls, r)
	status, body, fail := t.Respond(k, r)
	if fail {
		return nil, errRT
	}
	return &http.Response{StatusCode: status, Status: "scripted", Body: io.NopCloser(strings.NewReader(body)), Header: http.Header{}, Request: r}, nil
}

var errRT = errors.New("verifnd: scripted transport failure")

// NewHTTPClient returns a client with its own scripted transport.
func NewHTTPClient(respond func(k int, r *http.Request) (int, string, bool)) (*http.Client, *RT) {
	rt := &RT{Respond: respond}
	return &http.Client{Transport: rt}, rt
}
