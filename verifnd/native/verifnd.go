// Package verifnd is the harness API. This is the NATIVE variant: draws are looked up in a
// case file (a solver model), constructors materialise real artefacts, assertions are
// evaluated by the Go runtime against the real libraries. Used for replaying
// counterexamples and for validating path witnesses of the symbolic engine.
package verifnd

import (
	"context"
	"crypto/ecdsa"
	"crypto/ed25519"
	"crypto/elliptic"
	"crypto/rand"
	"crypto/rsa"
	"crypto/sha256"
	"crypto/sha512"
	"encoding/base64"
	"encoding/hex"
	"encoding/json"
	"fmt"
	"hash"
	"math/big"
	"net/http"
	"net/http/httptest"
	"net/url"
	"os"
	"reflect"
	"runtime/debug"
	"strings"
	"time"
	"errors"
	"html"
	"io"
	"regexp"
	"runtime"
)

type choiceRec struct {
	Tag string
	V   int
}

type caseT struct {
	ID      string            `json:"id"`
	Harness string            `json:"harness"`
	Draws   map[string]string `json:"draws"`
	Choices []choiceRec       `json:"choices"`
	Params  map[string]int    `json:"params"`
}

type assertRec struct {
	Label string `json:"label"`
	OK    bool   `json:"ok"`
}

type resultT struct {
	ID       string      `json:"id"`
	Harness  string      `json:"harness"`
	Asserts  []assertRec `json:"asserts"`
	Covers   []string    `json:"covers"`
	Panic    string      `json:"panic,omitempty"`
	Stack    string      `json:"stack,omitempty"`
	Aborted  string      `json:"aborted,omitempty"` // assume failed / missing draw
	Missing  []string    `json:"missing,omitempty"`
	Notes    []string    `json:"notes,omitempty"`
}

var (
	cur      *caseT
	res      *resultT
	counters map[string]int
	clock    []int64
	clockPos int
	ctxs     map[int]context.Context
	// CleanupFns run after each case (harness environments register servers to close, etc.)
	CleanupFns []func()
)

type abortT struct{ why string }

func name(tag string, space string) string {
	k := counters[space+tag]
	counters[space+tag] = k + 1
	if k > 0 {
		return fmt.Sprintf("%s#%d", tag, k)
	}
	return tag
}

func lookup(tag string) (string, bool) {
	n := name(tag, "")
	v, ok := cur.Draws[n]
	if !ok {
		res.Missing = append(res.Missing, n)
	}
	return v, ok
}

func Bool(tag string) bool {
	v, _ := lookup(tag)
	return v == "t"
}

func Int(tag string, lo, hi int64) int64 {
	v, ok := lookup(tag)
	if !ok || !strings.HasPrefix(v, "i:") {
		if lo <= 0 && hi >= 0 {
			return 0
		}
		return lo
	}
	b, _ := new(big.Int).SetString(v[2:], 10)
	return b.Int64()
}

func Str(tag string) string {
	v, ok := lookup(tag)
	if !ok || !strings.HasPrefix(v, "s:") {
		return ""
	}
	b, _ := hex.DecodeString(v[2:])
	return string(b)
}

func Bytes(tag string, n int) string {
	out := make([]byte, n)
	for i := range out {
		v, ok := lookup(fmt.Sprintf("%s.b%d", tag, i))
		if ok && strings.HasPrefix(v, "b:") {
			var x int
			fmt.Sscanf(v[2:], "%d", &x)
			out[i] = byte(x)
		}
	}
	return string(out)
}

func Choice(tag string, n int) int {
	nm := name(tag, "choice:")
	for _, c := range cur.Choices {
		if c.Tag == nm {
			return c.V
		}
	}
	res.Missing = append(res.Missing, "choice:"+nm)
	return 0
}

func Param(nm string, def int) int {
	if v, ok := cur.Params[nm]; ok {
		return v
	}
	return def
}

func Assume(c bool) {
	if !c {
		panic(abortT{"assumption does not hold natively"})
	}
}

func Assert(c bool, label string) { res.Asserts = append(res.Asserts, assertRec{Label: label, OK: c}) }
func Cover(label string)          { res.Covers = append(res.Covers, label) }
func Note(msg string)             { res.Notes = append(res.Notes, msg) }

func And(a, b bool) bool     { return a && b }
func Or(a, b bool) bool      { return a || b }
func Not(a bool) bool        { return !a }
func Implies(a, b bool) bool { return !a || b }
func Contains(xs []string, s string) bool {
	for _, x := range xs {
		if x == s {
			return true
		}
	}
	return false
}
func EqStrs(a, b []string) bool {
	if len(a) != len(b) {
		return false
	}
	for i := range a {
		if a[i] != b[i] {
			return false
		}
	}
	return true
}
func HasPrefix(s, p string) bool { return strings.HasPrefix(s, p) }
func IsNil(x any) bool {
	if x == nil {
		return true
	}
	v := reflect.ValueOf(x)
	switch v.Kind() {
	case reflect.Ptr, reflect.Map, reflect.Slice, reflect.Func, reflect.Interface, reflect.Chan:
		return v.IsNil()
	}
	return false
}

// ---- clock: scripted from the draws now, now#1, ... (unix ns); repeats the last one when exhausted
func Now() time.Time {
	var ns int64
	if clockPos < len(clock) {
		ns = clock[clockPos]
	} else if len(clock) > 0 {
		ns = clock[len(clock)-1]
	} else {
		ns = int64(1) << 30 * int64(time.Second)
		clock = append(clock, ns)
	}
	clockPos++
	return time.Unix(0, ns)
}
func ClockReads() int { return clockPos }
func ClockFirst() int64 {
	if clockPos == 0 {
		Now()
	}
	return clock[0]
}
func ClockLast() int64 {
	if clockPos == 0 {
		Now()
	}
	i := clockPos - 1
	if i >= len(clock) {
		i = len(clock) - 1
	}
	return clock[i]
}

func Ctx(i int) context.Context {
	if c, ok := ctxs[i]; ok {
		return c
	}
	type key int
	c := context.WithValue(context.Background(), key(i), i)
	ctxs[i] = c
	return c
}

func b64(b []byte) string { return base64.RawURLEncoding.EncodeToString(b) }

// Token builds a real JWS. nsig==1: compact serialisation; otherwise the general JSON serialisation.
// The signature bytes are arbitrary: harness key sets decide validity.
func Token(claims any, alg, kid string, nsig int) string {
	payload, err := json.Marshal(claims)
	if err != nil {
		panic(abortT{"cannot marshal claims: " + err.Error()})
	}
	hdr := map[string]string{"alg": alg}
	if kid != "" {
		hdr["kid"] = kid
	}
	hb, _ := json.Marshal(hdr)
	if nsig == 1 {
		return b64(hb) + "." + b64(payload) + "." + b64([]byte("signature"))
	}
	sigs := []map[string]string{}
	for i := 0; i < nsig; i++ {
		sigs = append(sigs, map[string]string{"protected": b64(hb), "signature": b64([]byte(fmt.Sprintf("signature%d", i)))})
	}
	doc, _ := json.Marshal(map[string]any{"payload": b64(payload), "signatures": sigs})
	return string(doc)
}

func Hash(kind string, s string, half bool) string {
	var h hash.Hash
	switch kind {
	case "sha256":
		h = sha256.New()
	case "sha384":
		h = sha512.New384()
	case "sha512":
		h = sha512.New()
	default:
		panic(abortT{"unknown hash kind " + kind})
	}
	h.Write([]byte(s))
	sum := h.Sum(nil)
	if half {
		sum = sum[:len(sum)/2]
	}
	return b64(sum)
}

func FrameOn()                  {}
func FrameOff()                 {}
func Label(x any, label string) {}

// ---- runner ----

type TB interface {
	Logf(format string, args ...any)
	Fatalf(format string, args ...any)
}

// RunNative runs every case of $VERIF_CASES against the harness functions given.
func RunNative(t TB, harnesses map[string]func()) {
	path := os.Getenv("VERIF_CASES")
	if path == "" {
		t.Logf("VERIF_CASES not set; nothing to replay")
		return
	}
	b, err := os.ReadFile(path)
	if err != nil {
		t.Fatalf("cases: %v", err)
	}
	var cases []caseT
	if err := json.Unmarshal(b, &cases); err != nil {
		t.Fatalf("cases: %v", err)
	}
	for i := range cases {
		c := &cases[i]
		fn := harnesses[c.Harness]
		r := runOne(c, fn)
		out, _ := json.Marshal(r)
		fmt.Printf("VERIF-RESULT %s\n", out)
	}
}

func runOne(c *caseT, fn func()) (r *resultT) {
	cur, res = c, &resultT{ID: c.ID, Harness: c.Harness}
	r = res
	counters = map[string]int{}
	ctxs = map[int]context.Context{}
	clock, clockPos = nil, 0
	for i := 0; ; i++ {
		tag := "now"
		if i > 0 {
			tag = fmt.Sprintf("now#%d", i)
		}
		v, ok := c.Draws[tag]
		if !ok || !strings.HasPrefix(v, "i:") {
			break
		}
		bi, _ := new(big.Int).SetString(v[2:], 10)
		clock = append(clock, bi.Int64())
	}
	if fn == nil {
		r.Aborted = "harness not registered"
		return
	}
	defer func() {
		for _, f := range CleanupFns {
			f()
		}
		CleanupFns = nil
		if p := recover(); p != nil {
			if a, ok := p.(abortT); ok {
				r.Aborted = a.why
				return
			}
			r.Panic = fmt.Sprint(p)
			st := string(debug.Stack())
			if len(st) > 3000 {
				st = st[:3000]
			}
			r.Stack = st
		}
	}()
	fn()
	return
}

// ---- keys ----

var keyCache = map[string][2]any{}

// KeyPair returns a real key pair of the family of alg; the same (id, family) yields the same pair.
func KeyPair(id, alg string) (priv any, pub any) {
	fam := "rsa"
	switch {
	case strings.HasPrefix(alg, "ES"):
		fam = "ec" + alg[2:]
	case alg == "EdDSA":
		fam = "ed"
	}
	k := id + "|" + fam
	if p, ok := keyCache[k]; ok {
		return p[0], p[1]
	}
	switch {
	case fam == "rsa":
		pk, err := rsa.GenerateKey(rand.Reader, 2048)
		if err != nil {
			panic(abortT{"rsa keygen: " + err.Error()})
		}
		priv, pub = pk, &pk.PublicKey
	case fam == "ed":
		pb, pk, _ := ed25519.GenerateKey(rand.Reader)
		priv, pub = pk, pb
	default:
		curve := elliptic.P256()
		switch fam {
		case "ec384":
			curve = elliptic.P384()
		case "ec512":
			curve = elliptic.P521()
		}
		pk, err := ecdsa.GenerateKey(curve, rand.Reader)
		if err != nil {
			panic(abortT{"ecdsa keygen: " + err.Error()})
		}
		priv, pub = pk, &pk.PublicKey
	}
	keyCache[k] = [2]any{priv, pub}
	return
}

// ---- HTTP request ----

// Request builds a real *http.Request. GET: form goes into the query; otherwise into an
// x-www-form-urlencoded body. badForm appends a malformed escape so that ParseForm fails.
func Request(method, target string, form url.Values, basicUser, basicPass string, hasBasic, badForm bool) *http.Request {
	// a key written "?name" travels in the URL query even for a request with a body
	body, query := url.Values{}, url.Values{}
	for k, v := range form {
		if strings.HasPrefix(k, "?") {
			query[k[1:]] = v
		} else {
			body[k] = v
		}
	}
	enc := body.Encode()
	if badForm {
		if enc != "" {
			enc += "&"
		}
		enc += "bad=%zz"
	}
	var r *http.Request
	if method == http.MethodGet || method == http.MethodHead {
		u := target
		if q := query.Encode(); q != "" {
			if enc != "" {
				enc += "&"
			}
			enc += q
		}
		if enc != "" {
			u += "?" + enc
		}
		r = httptest.NewRequest(method, u, nil)
	} else {
		u := target
		if q := query.Encode(); q != "" {
			u += "?" + q
		}
		r = httptest.NewRequest(method, u, strings.NewReader(enc))
		r.Header.Set("Content-Type", "application/x-www-form-urlencoded")
	}
	if hasBasic {
		r.Header.Set("Authorization", "Basic "+base64.StdEncoding.EncodeToString([]byte(basicUser+":"+basicPass)))
	}
	return r
}

var (
	reFormAction = regexp.MustCompile(`<form method="post" action="([^"]*)">`)
	reFormField  = regexp.MustCompile(`<input type="hidden" name="([^"]*)" value="([^"]*)" ?/>`)
)

// FormAction returns the (HTML-unescaped) action attribute of the form_post page.
func FormAction(body string) (string, bool) {
	m := reFormAction.FindStringSubmatch(body)
	if m == nil {
		return "", false
	}
	return html.UnescapeString(m[1]), true
}

// FormField returns the (HTML-unescaped) value of the hidden input called name.
func FormField(body string, name string) (string, bool) {
	for _, m := range reFormField.FindAllStringSubmatch(body, -1) {
		if html.UnescapeString(m[1]) == name {
			return html.UnescapeString(m[2]), true
		}
	}
	return "", false
}

// JSONDoc builds the real JSON text of the document the model describes (draws <tag>.tag/.bool/.int/.str,
// choice <tag>.len, elements <tag>.<k>).
func JSONDoc(tag string) []byte {
	b, _ := json.Marshal(jsonValue(tag, 0))
	return b
}

func rawDraw(nm string) (string, bool) { v, ok := cur.Draws[nm]; return v, ok }

func jsonValue(tag string, depth int) any {
	kind := int64(0)
	if v, ok := rawDraw(tag + ".tag"); ok && strings.HasPrefix(v, "i:") {
		fmt.Sscanf(v[2:], "%d", &kind)
	}
	switch kind {
	case 1:
		v, _ := rawDraw(tag + ".bool")
		return v == "t"
	case 2:
		var n int64
		if v, ok := rawDraw(tag + ".int"); ok && strings.HasPrefix(v, "i:") {
			fmt.Sscanf(v[2:], "%d", &n)
		}
		return n
	case 3:
		if v, ok := rawDraw(tag + ".str"); ok && strings.HasPrefix(v, "s:") {
			b, _ := hex.DecodeString(v[2:])
			return string(b)
		}
		return ""
	case 4:
		n := 0
		for _, c := range cur.Choices {
			if c.Tag == tag+".len" {
				n = c.V
			}
		}
		out := make([]any, n)
		for k := range out {
			if depth < 4 {
				out[k] = jsonValue(fmt.Sprintf("%s.%d", tag, k), depth+1)
			}
		}
		return out
	case 5:
		return map[string]any{}
	}
	return nil
}

func WithCookie(r *http.Request, name, value string) *http.Request {
	r.AddCookie(&http.Cookie{Name: name, Value: value})
	return r
}

func CookieSet(w http.ResponseWriter, name string) (value string, maxAge int, ok bool) {
	resp := http.Response{Header: w.Header()}
	cs := resp.Cookies()
	for i := len(cs) - 1; i >= 0; i-- {
		if cs[i].Name == name {
			return cs[i].Value, cs[i].MaxAge, true
		}
	}
	return "", 0, false
}

func Fingerprint(x any) string {
	v := reflect.ValueOf(x)
	for v.Kind() == reflect.Ptr || v.Kind() == reflect.Interface {
		if v.IsNil() {
			return "<nil>"
		}
		v = v.Elem()
	}
	return fmt.Sprintf("%+v", v)
}

func Yield() { runtime.Gosched() }

func Settle() { time.Sleep(30 * time.Millisecond) }

func JWKS(keys any, unknownAt int) string {
	v := reflect.ValueOf(keys)
	var parts []string
	for i := 0; i <= v.Len(); i++ {
		if i == unknownAt {
			parts = append(parts, `{"kty":"PQX","kid":"pq-1","use":"sig","x":"AAAA"}`)
		}
		if i < v.Len() {
			b, err := json.Marshal(v.Index(i).Interface())
			if err != nil {
				panic(abortT{"cannot marshal JWK: " + err.Error()})
			}
			parts = append(parts, string(b))
		}
	}
	return `{"keys":[` + strings.Join(parts, ",") + `]}`
}

func Debugf(format string, args ...any) { res.Notes = append(res.Notes, fmt.Sprintf(format, args...)) }

// ---- scripted HTTP transport (plain Go in both variants: executed symbolically and natively) ----

// RT is an http.RoundTripper whose k-th answer is decided by the harness (Respond draws what it
// wants from this package); every request is journalled.
type RT struct {
	Respond func(k int, r *http.Request) (status int, body string, fail bool)
	Calls   []*http.Request
}

func (t *RT) RoundTrip(r *http.Request) (*http.Response, error) {
	k := len(t.Calls)
	t.Calls = append(t.Calls, r)
	status, body, fail := t.Respond(k, r)
	if fail {
		return nil, errRT
	}
	return &http.Response{StatusCode: status, Status: "scripted", Body: io.NopCloser(strings.NewReader(body)), Header: http.Header{}, Request: r}, nil
}

var errRT = errors.New("verifnd: scripted transport failure")

// NewHTTPClient returns a client with its own scripted transport.
func NewHTTPClient(respond func(k int, r *http.Request) (int, string, bool)) (*http.Client, *RT) {
	rt := &RT{Respond: respond}
	return &http.Client{Transport: rt}, rt
}
